"""Forward substitution of reaching definitions over the structured IR.

A function body is walked path by path (MASA has only structured control
flow); on each path every local and every member written during the invocation
is replaced by the expression last assigned to it, calls to functions defined in
the repository are inlined (virtual calls on `this` are resolved for the
dynamic class under analysis), and the result is an expression *tree* over
parameters, members-as-found-on-entry and library calls.  Nothing is
simplified, evaluated or solved here; consumers (dependency sets, characters,
clone comparison, effect rules) interpret the tree abstractly.

Terms (nested tuples):
  ('num', Fraction)            numeric literal (source spelling, exact)
  ('sym', name)                parameter of the entry function, or a member path as found on entry, or a constant global (pi)
  ('add', (t,...)) ('mul', (t,...)) ('neg', t) ('div', a, b)
  ('call', name, (args,...))   library function (sin, cos, pow, exp, ...)
  ('apply', f, (args,...))     call through a function pointer f (a term)
  ('cmp', op, a, b) ('not', t) ('and', a, b) ('or', a, b)
  ('ite', c, a, b)
  ('elem', vec, idx) ('size', vec)
  ('unk', why)                 anything outside the modelled subset
"""
from fractions import Fraction
from .ast import strip, flat_stmts, stmts, member_path
from . import catalogue as cat

MAX_PATHS = 256
MAX_DEPTH = 24


class Path:
    __slots__ = ('conds', 'locals', 'mem', 'defmem', 'ret', 'kind', 'maymem', 'events', 'exit_hit')

    def __init__(self):
        self.events = []      # ordered side effects on this path: (kind, detail, loc)
        self.exit_hit = None
        self.conds = []
        self.locals = {}      # local id -> term
        self.mem = {}         # member path -> term (written during this invocation)
        self.ret = None
        self.kind = 'fall'

    def fork(self):
        p = Path()
        p.conds = list(self.conds)
        p.locals = dict(self.locals)
        p.mem = dict(self.mem)
        p.ret = self.ret
        p.kind = self.kind
        p.events = list(self.events)
        p.exit_hit = self.exit_hit
        return p


class ForkSignal(Exception):
    """raised by inline_call in fork mode when the callee of a top-level call has several returning paths: carries
    [(path, value)] so that the enclosing statement continues once per path instead of folding them into one"""
    def __init__(self, results):
        Exception.__init__(self, 'fork')
        self.results = results


def subst_term(t, old, new):
    """t with every occurrence of the subterm old replaced by new"""
    if t == old:
        return new
    if isinstance(t, tuple):
        return tuple(subst_term(x, old, new) if isinstance(x, tuple) else x for x in t)
    return t


def size_of(t):
    """number of elements of a container value: resize(x, n) has n, a container filled element by element keeps its size"""
    if t[0] == 'call' and t[1] == 'container:resize' and len(t[2]) >= 2:
        return t[2][1]
    if t[0] == 'call' and t[1] == 'vfill':
        return size_of(t[2][0])
    return ('size', t)


def all_const_stores(t):
    """an array value written element by element at constant positions: elemstore(...elemstore(<uninitialised>, i, v)..., j, w)"""
    while t[0] == 'call' and t[1] == 'elemstore' and len(t[2]) == 3:
        if t[2][1][0] != 'num':
            return False
        t = t[2][0]
    return t[0] == 'unk'


class _Writes(dict):
    """trace.writes, which also notes the call stack at each write (who, among the inlined callees, performs it)"""

    def __init__(self, ev):
        dict.__init__(self)
        self.ev = ev

    def setdefault(self, k, d=None):
        self.ev.trace.write_stacks.setdefault(k, set()).add(tuple(self.ev.call_stack))
        return dict.setdefault(self, k, d)


class Trace:
    """side information gathered during evaluation of one entry function"""

    def __init__(self):
        self.pre_reads = {}     # member path -> first location read while not yet written on that path
        self.writes = {}        # member path -> [locations]
        self.write_stacks = {}  # member path -> set of call stacks (qualified names of the inlined callees, outermost first) active at a write
        self.unknown_calls = []  # (qname, loc)
        self.lib_calls = []      # every call to a function outside the repository (qname, loc)
        self.inlined = set()
        self.static_locals = []
        self.mutable_statics = []
        self.setvar_all = []
        self.pruned = False
        self.vec_access = {}           # vecmodel: location of a subscript -> set of 'ok' / 'oob' / 'unknown'
        self.globals_read = {}  # qname -> (const?, loc)
        self.globals_written = {}
        self.setvar_calls = []  # (name literal or None, loc)
        self.notes = []
        self.too_many_paths = False
        self.max_depth = 0
        self.calls = []         # every call node seen (after inlining decisions): (q, loc, inlined?)
        self.coords_read = set()
        self.switch_labels = []  # list of label tuples, one per switch executed
        self.exit_paths = []     # paths of inlined callees that terminate the process
        self.frozen_values = {}  # frozen name -> [terms assigned]
        self.int_overflow = []   # (type, loc, operation) signed overflow met during integer constant propagation
        self.obj_calls = []      # library method calls on member objects: (path, method, arg terms, loc)


CONST_GLOBALS = {
    'MASA::manufactured_solution<double>::pi': 'pi', 'MASA::manufactured_solution<double>::PI': 'pi',
    'MASA::manufactured_solution<long double>::pi': 'pi', 'MASA::manufactured_solution<long double>::PI': 'pi',
}

MATH = {'sin', 'cos', 'tan', 'asin', 'acos', 'atan', 'atan2', 'sinh', 'cosh', 'tanh', 'exp', 'log', 'log10', 'sqrt', 'pow',
        'fabs', 'abs', 'erf', 'erfc', 'floor', 'ceil', 'fmod', 'cbrt', 'hypot', 'exp2', 'log2', 'expm1', 'log1p'}


def num(v):
    return ('num', Fraction(v))


def is_num(t, v=None):
    return t[0] == 'num' and (v is None or t[1] == v)


class Evaluator:
    def __init__(self, prog, dyn_class=None, scalar='double', inline=True, opaque=(), regmap=None, noreturn=()):
        self.prog = prog
        self.dyn_class = dyn_class
        self.scalar = scalar
        self.inline = inline
        self.opaque = set(opaque)      # function names never inlined
        self.regmap = regmap            # registered parameter name -> member path (set_var modelled as a store)
        self.noreturn = set(noreturn)  # repository functions that never return (proved by C16.R4)
        self.freeze = {}               # local / member name -> symbol: reads yield the symbol, assigned values are recorded
        self.vecmodel = False          # concrete model of std::vector members/locals of constant length (init_var analyses)
        self.trace = Trace()
        self.call_stack = []
        self.trace.writes = _Writes(self)
        self.memo = {}

    # ------------------------------------------------------------ expressions
    def literal(self, e):
        if e['k'] == 'int':
            return num(int(e['v']))
        sp = e['sp'].rstrip('fFlL')
        try:
            return ('num', Fraction(sp))
        except (ValueError, ZeroDivisionError):
            return ('unk', 'literal ' + e['sp'])

    def E(self, e, P, fr):
        """term of expression e on path P in frame fr"""
        if e is None:
            return ('unk', 'null')
        k = e['k']
        if k in ('paren', 'load', 'defarg'):
            return self.E(e['e'], P, fr)
        if k == 'cast':
            ck = e['ck']
            if ck in ('IntegralToFloating', 'FloatingCast', 'IntegralCast', 'NoOp', 'LValueToRValue', 'FloatingToIntegral',
                      'ConstructorConversion', 'DerivedToBase', 'UncheckedDerivedToBase', 'FunctionToPointerDecay',
                      'ArrayToPointerDecay', 'IntegralToBoolean', 'FloatingToBoolean', 'PointerToBoolean', 'ToVoid',
                      'UserDefinedConversion', 'BaseToDerived', 'NullToPointer', 'BitCast'):
                if ck == 'FloatingToIntegral':
                    return ('call', 'trunc', (self.E(e['e'], P, fr),))
                if ck == 'ArrayToPointerDecay':
                    lv_ = self.lvalue(e['e'], P, fr)
                    if lv_ is not None:
                        cur_ = self.lload(lv_, P)
                        if cur_[0] != 'arr':
                            return ('lptr', lv_[0], lv_[1], lv_[2], 0)
                return self.E(e['e'], P, fr)
            return ('unk', 'cast ' + ck)
        if k in ('int', 'float'):
            return self.literal(e)
        if k == 'bool':
            return num(int(e['v']))
        if k == 'char':
            return num(int(e['v']))
        if k == 'param':
            if e.get('foreign'):
                return ('unk', 'foreign param')
            v = fr['args'][e['i']] if e['i'] < len(fr['args']) else ('unk', 'param')
            if v[0] == 'alias':
                return self.E(v[1], P, v[2])
            return v
        if k == 'local':
            if e.get('static'):
                self.trace.static_locals.append((e['n'], e.get('l')))
            v = P.locals.get((fr['id'], e['id']))
            if v is None:
                return ('unk', 'uninitialised local ' + e['n'])
            if e['n'] in self.freeze:
                return ('sym', self.freeze[e['n']])
            if v[0] == 'alias':
                return self.E(v[1], P, v[2])
            return v
        if k == 'global':
            q = e['q']
            self.trace.globals_read.setdefault(q, (bool(e.get('const')), e.get('l')))
            nm = q.split('::')[-1]
            if nm in ('pi', 'PI') and 'manufactured_solution<' in q:
                return ('sym', 'pi')
            if e.get('const'):
                # tables and integer constants at namespace scope are data of the program: use their initialiser
                ty_g = str(e.get('t', ''))
                var = self.prog.vars.get(q) if self.prog is not None else None
                if var is not None and var.get('init') is not None and (
                        '[' in ty_g or ty_g.replace('const ', '').strip() in self.INT_RANGES or ty_g.replace('const ', '').strip() in ('bool', 'unsigned long', 'std::size_t', 'size_t')):
                    cache = self.__dict__.setdefault('_gconst', {})
                    if q not in cache:
                        cache[q] = None
                        try:
                            g_fr = {'id': self.new_frame_id(), 'args': [], 'this': '', 'depth': 0, 'fn': None}
                            v_g = self.E(var['init'], Path(), g_fr)
                            if not has_unk(v_g):
                                cache[q] = v_g
                        except Exception:
                            cache[q] = None
                    if cache[q] is not None:
                        return cache[q]
                return ('sym', 'const:' + nm)
            return ('sym', 'global:' + q)
        if k == 'member':
            path = self.mpath(e, P, fr)
            if path is None:
                bt = self.E(e['base'], P, fr)
                if bt[0] == 'deref' and bt[1][0] == 'addr':
                    bt = bt[1][1]
                if bt[0] in ('arr', 'aptr'):
                    # p->field with p a pointer into a constant array
                    arr_, i_ = (bt[1], bt[2]) if bt[0] == 'aptr' else (bt, 0)
                    if 0 <= i_ < len(arr_[1]):
                        bt = arr_[1][i_]
                if bt[0] == 'struct':
                    return bt[1].get(e['n'], ('unk', 'unset field ' + e['n']))
                if bt[0] == 'sym' and self.is_data_member(bt[1].split('.')[0]):
                    # a reference to a member sub-object (const T& r = helper_returning_a_member()): r.f is member.f
                    return self.read_member(bt[1] + '.' + e['n'], P, e.get('l'))
                return ('field', bt, e['n'])
            return self.read_member(path, P, e.get('l'))
        if k == 'this':
            return ('sym', 'this:' + fr['this'])
        if k == 'un':
            op = e['op']
            if op == '-':
                return ('neg', self.E(e['e'], P, fr))
            if op == '+':
                return self.E(e['e'], P, fr)
            if op == '!':
                return ('not', self.E(e['e'], P, fr))
            if op == '*':
                inner = strip(e['e'], casts=True)
                # *ptr_member (nsctpl: const Scalar *Lx) -> the pointee symbol
                if inner.get('k') == 'member':
                    path = self.mpath(inner, P, fr)
                    if path is not None:
                        return self.read_member(path + '*', P, e.get('l'))
                t = self.E(e['e'], P, fr)
                if t[0] == 'lptr':
                    return self.lload((t[1], t[2], t[3] + (('i', t[4]),)), P)
                if t[0] == 'addr' and t[1][0] == 'lref':
                    v_l = P.locals.get((t[1][1], t[1][2]))
                    return v_l if v_l is not None else ('unk', 'uninitialised local ' + str(t[1][3]))
                if t[0] == 'addr':
                    return t[1]
                if t[0] in ('aptr', 'arr'):
                    arr_, i_ = (t[1], t[2]) if t[0] == 'aptr' else (t, 0)
                    if 0 <= i_ < len(arr_[1]):
                        return arr_[1][i_]
                    return ('unk', 'dereference outside the array')
                if t[0] == 'sym' and t[1].startswith('this:'):
                    return t                      # *this is the object itself
                if t[0] == 'sym':
                    if not t[1].startswith(('fn:', 'const:', '@')):
                        self.trace.pre_reads.setdefault(t[1] + '*', e.get('l'))
                    return ('sym', t[1] + '*')
                return ('deref', t)
            if op == '&' and '::*' in str(e.get('t', '')) and strip(e['e'], casts=True).get('k') == 'declref':
                # pointer to data member: &Class::member
                return ('memptr', strip(e['e'], casts=True)['q'].split('::')[-1])
            if op == '&':
                inner = strip(e['e'], casts=True)
                if inner.get('k') == 'param' and not inner.get('foreign') and inner['i'] < len(fr['args']) and fr['args'][inner['i']][0] == 'alias':
                    al = fr['args'][inner['i']]
                    return self.E({'k': 'un', 'op': '&', 'e': al[1], 'l': e.get('l')}, P, al[2])
                if inner.get('k') == 'member':
                    pth = self.mpath(inner, P, fr)
                    if pth is not None:
                        return ('addr', ('sym', pth))
                if inner.get('k') == 'local':
                    cur_ = P.locals.get((fr['id'], inner['id']))
                    if cur_ is None or cur_[0] not in ('alias', 'struct', 'arr', 'cvec'):
                        # address of a scalar / string local: a store through it updates the local
                        return ('addr', ('lref', fr['id'], inner['id'], inner.get('n')))
                return ('addr', self.E(e['e'], P, fr))
            if op in ('++', '--'):
                tgt = e['e']
                old = self.E(tgt, P, fr)
                new = self.array_pointer(old, num(1), '+' if op == '++' else '-') or \
                    self.fold_int('+', old, num(1 if op == '++' else -1), e.get('t'), e.get('l')) or ('add', (old, num(1 if op == '++' else -1)))
                self.assign(tgt, new, P, fr, e.get('l'))
                return old if e.get('post') else new
            return ('unk', 'unary ' + op)
        if k == 'bin':
            op = e['op']
            if op == '=':
                v = self.E(e['b'], P, fr)
                self.assign(e['a'], v, P, fr, e.get('l'))
                return v
            if op in ('+=', '-=', '*=', '/=', '%='):
                a = self.E(e['a'], P, fr)
                b = self.E(e['b'], P, fr)
                v = self.fold_int(op[0], a, b, e.get('t'), e.get('l')) or self.array_pointer(a, b, op[0])
                if v is None:
                    v = self.binop(op[0], a, b) if op[0] != '%' else ('call', 'mod', (a, b))
                self.assign(e['a'], v, P, fr, e.get('l'))
                return v
            if op == ',':
                self.E(e['a'], P, fr)
                return self.E(e['b'], P, fr)
            if op in ('->*', '.*'):
                mp_ = self.E(e['b'], P, fr)
                ob_ = strip(e['a'], casts=True)
                if mp_[0] == 'memptr':
                    node = {'k': 'member', 'n': mp_[1], 'base': e['a'], 'l': e.get('l')}
                    pth = self.mpath(node, P, fr)
                    if pth is not None:
                        return self.read_member(pth, P, e.get('l'))
                return ('unk', 'binop ' + op)
            a = self.E(e['a'], P, fr)
            b = self.E(e['b'], P, fr)
            f = self.fold_int(op, a, b, e.get('t'), e.get('l'))
            if f is not None:
                return f
            pa = self.array_pointer(a, b, op)
            if pa is not None:
                return pa
            if op in ('+', '-', '*', '/'):
                if op == '/' and 'int' in str(e.get('t', '')) and e.get('t') in ('int', 'unsigned int', 'long', 'unsigned long'):
                    return ('call', 'intdiv', (a, b))
                return self.binop(op, a, b)
            if op == '%':
                return ('call', 'mod', (a, b))
            if op in ('<', '>', '<=', '>=', '==', '!='):
                return ('cmp', op, a, b)
            if op == '&&':
                return ('and', a, b)
            if op == '||':
                return ('or', a, b)
            return ('unk', 'binop ' + op)
        if k == 'cond':
            c = self.E(e['c'], P, fr)
            tv = self.truth(c)
            if tv is True:
                return self.E(e['a'], P, fr)
            if tv is False:
                return self.E(e['b'], P, fr)
            return ('ite', c, self.E(e['a'], P, fr), self.E(e['b'], P, fr))
        if k == 'call':
            return self.call(e, P, fr)
        if k == 'index':
            bt, it = self.E(e['base'], P, fr), self.E(e['idx'], P, fr)
            if bt[0] == 'lptr':
                if it[0] == 'num' and it[1].denominator == 1:
                    return self.lload((bt[1], bt[2], bt[3] + (('i', bt[4] + int(it[1])),)), P)
                return ('elem', self.lload((bt[1], bt[2], bt[3]), P), ('add', (num(bt[4]), it)) if bt[4] else it)
            return self.elem_of(bt, it)
        if k == 'construct':
            ty_ = str(e.get('t', '')).replace('const ', '')
            if self.vecmodel and ty_.startswith('std::vector<') and not [a for a in e['args'] if a.get('k') != 'defarg']:
                return ('cvec', ())
            if ty_.startswith('std::vector<') and len([a for a in e['args'] if a.get('k') != 'defarg']) == 2 and not self.vecmodel:
                a2 = [a for a in e['args'] if a.get('k') != 'defarg']
                return ('call', 'vec_range', (self.E(a2[0], P, fr), self.E(a2[1], P, fr)))
            if ty_.startswith('std::pair<') and len(e['args']) == 2:
                return ('pair', self.E(e['args'][0], P, fr), self.E(e['args'][1], P, fr))
            if e['args'] and ty_ in self.prog.records and not (len(e['args']) == 1 and e.get('ctor', '') in ('void (const %s &)' % ty_, 'void (%s &&)' % ty_)):
                r = self.construct_object(e, P, fr)
                if r is not None:
                    return r
            if len(e['args']) == 1:
                return self.E(e['args'][0], P, fr)
            if 'basic_string<char' in str(e.get('t', '')) and e['args'] and e.get('ctor', '').startswith(('void (const char *', 'void (const std::basic_string')):
                return self.E(e['args'][0], P, fr)
            if not e['args'] and ty_ in self.prog.records:
                if any(f_.get('ctor') and not f_.params and (f_.inits or stmts(f_.body)) for f_ in self.prog.methods_of(ty_)):
                    r = self.construct_object(e, P, fr)
                    if r is not None:
                        return r
                return ('struct', {})
            return ('unk', 'construct ' + e.get('t', ''))
        if k == 'str':
            return ('str', e['v'])
        if k == 'fnref':
            return ('sym', 'fn:' + e['q'])
        if k == 'zeroinit':
            return num(0)
        if k == 'initlist':
            vals = [self.E(a, P, fr) for a in e['args']]
            if e.get('fields') is not None and len(e['fields']) >= len(vals):
                return ('struct', {f: v_ for f, v_ in zip(e['fields'], vals)})
            return ('arr', tuple(vals))
        if k == 'new':
            P.events.append(('new', e.get('ty'), e.get('l')))
            return ('new', e.get('ty'), e.get('l'))
        if k == 'delete':
            t = self.E(e['e'], P, fr)
            P.events.append(('delete', t, e.get('l')))
            return ('unk', 'delete')
        if k == 'throw':
            t = self.E(e['e'], P, fr) if e.get('e') else None
            P.events.append(('throw', (t, e.get('ty')), e.get('l')))
            P.exit_hit = e.get('l')
            return ('unk', 'throw')
        if k == 'nullptr':
            return num(0)
        return ('unk', k)

    INT_RANGES = {'int': (-2 ** 31, 2 ** 31 - 1), 'long': (-2 ** 63, 2 ** 63 - 1), 'unsigned int': (0, 2 ** 32 - 1), 'unsigned long': (0, 2 ** 64 - 1),
                  'short': (-2 ** 15, 2 ** 15 - 1), 'unsigned short': (0, 2 ** 16 - 1), 'long long': (-2 ** 63, 2 ** 63 - 1), 'unsigned long long': (0, 2 ** 64 - 1)}

    def fold_int(self, op, a, b, ty, loc):
        """integer constant folding (constant propagation of int arguments) with the type's overflow behaviour:
        unsigned arithmetic wraps, signed overflow is undefined and recorded"""
        ty = str(ty or '').replace('const ', '')
        if ty not in self.INT_RANGES or op not in ('+', '-', '*', '/', '%'):
            return None
        if not (a[0] == 'num' and b[0] == 'num' and a[1].denominator == 1 and b[1].denominator == 1):
            return None
        x, y = int(a[1]), int(b[1])
        if op == '+':
            r = x + y
        elif op == '-':
            r = x - y
        elif op == '*':
            r = x * y
        else:
            if y == 0:
                return None
            q = abs(x) // abs(y) * (1 if (x >= 0) == (y >= 0) else -1)
            r = q if op == '/' else x - q * y
        lo, hi = self.INT_RANGES[ty]
        if r < lo or r > hi:
            if lo == 0:
                r %= (hi + 1)
            else:
                self.trace.int_overflow.append((ty, loc, '%d %s %d' % (x, op, y)))
                return ('unk', 'signed integer overflow in %s at %s' % (ty, loc))
        return num(r)

    @staticmethod
    def binop(op, a, b):
        if op == '+':
            return ('add', (a, b))
        if op == '-':
            return ('add', (a, ('neg', b)))
        if op == '*':
            return ('mul', (a, b))
        return ('div', a, b)

    def mpath(self, e, P, fr):
        """dotted path of a member expression relative to the entry object"""
        b = strip(e['base'], casts=True)
        if b.get('k') == 'local':
            v = P.locals.get((fr['id'], b['id']))
            if v is not None and v[0] == 'alias':
                vb = strip(v[1], casts=True)
                if vb.get('k') in ('member', 'this') or (vb.get('k') == 'un' and vb['op'] == '*'):
                    return self.mpath({'base': v[1], 'n': e['n']}, P, v[2])
            if v is None or v[0] in ('struct', 'arr', 'unk', 'call'):
                return None
        if b.get('k') == 'this':
            return (fr['this'] + '.' if fr['this'] else '') + e['n']
        if b.get('k') == 'member':
            p = self.mpath(b, P, fr)
            if p is not None and p in P.mem and P.mem[p][0] == 'sym' and P.mem[p][1].startswith('this:'):
                # pointer / reference member known to designate an object (set by an inlined constructor)
                pre = P.mem[p][1][5:]
                return (pre + '.' if pre else '') + e['n']
            if p is not None and p in P.mem and P.mem[p][0] == 'alias':
                # reference member bound, by an inlined constructor, to an object (helper(*this, ...): s(sol))
                try:
                    t_ = self.E(P.mem[p][1], P, P.mem[p][2])
                except Exception:
                    t_ = ('unk', 'alias')
                if t_[0] == 'sym' and t_[1].startswith('this:'):
                    pre = t_[1][5:]
                    return (pre + '.' if pre else '') + e['n']
            return None if p is None else p + '.' + e['n']
        if b.get('k') == 'un' and b['op'] == '*':
            return self.mpath({'base': b['e'], 'n': e['n']}, P, fr)
        if b.get('k') in ('local', 'param'):
            t = self.E(b, P, fr)
            if t[0] == 'sym' and t[1].startswith('this:'):
                pre = t[1][5:]
                return (pre + '.' if pre else '') + e['n']
            if t[0] == 'sym':
                return t[1] + '.' + e['n']
        return None

    # ------------------------------------------------------------ aggregates held in locals (structs, arrays, arrays of structs)
    def lvalue(self, e, P, fr, depth=0):
        """(frame id, local id, path) when e designates a sub-object of a local aggregate: path is a tuple of ('f', field) and
        ('i', constant index) steps.  Reference parameters / reference locals and pointers obtained by array decay are followed."""
        if depth > 12 or e is None:
            return None
        t = strip(e, casts=True)
        k = t.get('k')
        if k == 'local':
            cur = P.locals.get((fr['id'], t['id']))
            if cur is not None and cur[0] == 'alias':
                return self.lvalue(cur[1], P, cur[2], depth + 1)
            if cur is not None and cur[0] in ('lptr', 'cvec'):
                return None
            return (fr['id'], t['id'], ())
        if k == 'param':
            a = fr['args'][t['i']] if not t.get('foreign') and t['i'] < len(fr['args']) else None
            if a is not None and a[0] == 'alias':
                return self.lvalue(a[1], P, a[2], depth + 1)
            return None
        if k == 'member':
            if t.get('arrow') or self.mpath(t, P, fr) is not None:
                return None
            b = self.lvalue(t['base'], P, fr, depth + 1)
            return None if b is None else (b[0], b[1], b[2] + (('f', t['n']),))
        if k == 'index':
            iv = self.E(t['idx'], P, fr)
            if not (iv[0] == 'num' and iv[1].denominator == 1):
                return None
            pv = self.pointer_of(t['base'], P, fr)
            if pv is not None:
                return (pv[1], pv[2], pv[3] + (('i', pv[4] + int(iv[1])),))
            b = self.lvalue(t['base'], P, fr, depth + 1)
            return None if b is None else (b[0], b[1], b[2] + (('i', int(iv[1])),))
        if k == 'un' and t.get('op') == '*':
            pv = self.pointer_of(t['e'], P, fr)
            if pv is not None:
                return (pv[1], pv[2], pv[3] + (('i', pv[4]),))
        return None

    def pointer_of(self, e, P, fr):
        """the ('lptr', frame, local, path, offset) value of a pointer-typed expression, if it is one"""
        t = strip(e, casts=True)
        if t.get('k') == 'param' and not t.get('foreign') and t['i'] < len(fr['args']) and fr['args'][t['i']][0] == 'lptr':
            return fr['args'][t['i']]
        if t.get('k') == 'local':
            cur = P.locals.get((fr['id'], t['id']))
            if cur is not None and cur[0] == 'lptr':
                return cur
            if cur is not None and cur[0] == 'alias':
                return self.pointer_of(cur[1], P, cur[2])
        if t.get('k') == 'bin' and t.get('op') in ('+', '-'):
            v = self.E(t, P, fr)
            if v[0] == 'lptr':
                return v
        return None

    @classmethod
    def agg_get(cls, val, path):
        for st in path:
            if val is None:
                return ('unk', 'uninitialised aggregate')
            if st[0] == 'f':
                if val[0] != 'struct':
                    return ('field', val, st[1])
                val = val[1].get(st[1], ('unk', 'unset field ' + st[1]))
            else:
                if val[0] == 'unk':
                    return val
                val = cls.elem_of(val, num(st[1]))
        return val

    @classmethod
    def agg_upd(cls, val, path, v):
        if not path:
            return v
        st = path[0]
        if st[0] == 'f':
            d_ = dict(val[1]) if val is not None and val[0] == 'struct' else {}
            d_[st[1]] = cls.agg_upd(d_.get(st[1]), path[1:], v)
            return ('struct', d_)
        i = st[1]
        if val is not None and val[0] == 'arr' and 0 <= i < len(val[1]):
            l_ = list(val[1])
            l_[i] = cls.agg_upd(l_[i], path[1:], v)
            return ('arr', tuple(l_) if isinstance(val[1], tuple) else l_)
        old = val if val is not None else ('unk', 'uninitialised container')
        cur = cls.elem_of(old, num(i)) if old[0] != 'unk' else None
        if cur is not None and cur[0] == 'elem':
            cur = None
        nv = cls.agg_upd(cur, path[1:], v)
        if old[0] == 'call' and all_const_stores(old):
            # keep one store per position
            chain = []
            t_ = old
            while t_[0] == 'call' and t_[1] == 'elemstore':
                chain.append((t_[2][1], t_[2][2]))
                t_ = t_[2][0]
            out = t_
            for ix, vx in reversed(chain):
                if ix != num(i):
                    out = ('call', 'elemstore', (out, ix, vx))
            return ('call', 'elemstore', (out, num(i), nv))
        return ('call', 'elemstore', (old, num(i), nv))

    def ptr_elems(self, pv, n, P):
        """the n elements a pointer value designates, or None"""
        if pv[0] == 'lptr':
            return [self.lload((pv[1], pv[2], pv[3] + (('i', pv[4] + i),)), P) for i in range(n)]
        base, off = (pv[1], pv[2]) if pv[0] == 'aptr' else (pv, 0)
        if base[0] == 'arr' or (base[0] == 'call' and base[1] == 'elemstore' and all_const_stores(base)):
            out = [self.elem_of(base, num(off + i)) for i in range(n)]
            return None if any(x[0] == 'elem' for x in out) else out
        return None

    def lstore(self, lv, v, P):
        P.locals[(lv[0], lv[1])] = self.agg_upd(P.locals.get((lv[0], lv[1])), lv[2], v)

    def lload(self, lv, P):
        return self.agg_get(P.locals.get((lv[0], lv[1])), lv[2])

    def is_data_member(self, name):
        """name is a data member of the dynamic class (or one of its bases) with class type"""
        if not self.dyn_class or self.prog is None:
            return False
        cache = self.__dict__.setdefault('_dm_cache', {})
        if name not in cache:
            ok = False
            for r in self.prog.base_chain(self.dyn_class):
                for fld in self.prog.records.get(r, {}).get('fields', []):
                    if fld['n'] == name:
                        ok = True
            cache[name] = ok
        return cache[name]

    def read_member(self, path, P, loc):
        if path in P.mem:
            if path in self.freeze:
                return ('sym', self.freeze[path])
            return P.mem[path]
        self.trace.pre_reads.setdefault(path, loc)
        return ('sym', path)

    def assign(self, tgt, v, P, fr, loc):
        t = strip(tgt, casts=True)
        k = t.get('k')
        if k == 'local':
            cur = P.locals.get((fr['id'], t['id']))
            if cur is not None and cur[0] == 'alias':
                return self.assign(cur[1], v, P, cur[2], loc)
            P.locals[(fr['id'], t['id'])] = v
            if t['n'] in self.freeze:
                self.trace.frozen_values.setdefault(t['n'], []).append(v)
            if t.get('static'):
                self.trace.static_locals.append((t['n'], loc))
            return
        if k == 'member' and self.mpath(t, P, fr) is None:
            bb = strip(t['base'], casts=True)
            if bb.get('k') == 'local':
                cur = P.locals.get((fr['id'], bb['id']))
                if cur is not None and cur[0] == 'alias':
                    return self.assign({'k': 'member', 'n': t['n'], 'base': cur[1], 'l': loc}, v, P, cur[2], loc)
                d_ = dict(cur[1]) if cur is not None and cur[0] == 'struct' else {}
                d_[t['n']] = v
                P.locals[(fr['id'], bb['id'])] = ('struct', d_)
                return
        if k == 'member':
            path = self.mpath(t, P, fr)
            if path is not None:
                P.mem[path] = v
                if path in self.freeze:
                    self.trace.frozen_values.setdefault(path, []).append(v)
                self.trace.writes.setdefault(path, []).append(loc)
                P.events.append(('write', path, loc))
                return
            lv_ = self.lvalue(t, P, fr)
            if lv_ is not None:
                self.lstore(lv_, v, P)
                return
            # field of something reached through an iterator / pointer (it->second = v): keep the store as an event
            tgt = self.E(t, P, fr)
            P.events.append(('store', (tgt, v), loc))
            self.trace.writes.setdefault('*' + fmt(tgt)[:40], []).append(loc)
            return
        if k == 'param':
            # by-value parameter reassigned, or reference parameter bound to something of the caller
            a = fr['args'][t['i']] if t['i'] < len(fr['args']) else None
            if a is not None and a[0] == 'alias':
                self.assign(a[1], v, P, a[2], loc)
            else:
                fr['args'][t['i']] = v
                pt = ''
                try:
                    pt = str(fr['fn'].params[t['i']]['t']) if fr.get('fn') is not None else ''
                except (IndexError, KeyError, AttributeError):
                    pt = ''
                if pt.endswith('&') and not pt.endswith('&&'):
                    # a reference parameter of the entry function: the store is visible to the caller
                    P.events.append(('write-through', ('sym', t['n']), loc, v))
            return
        if k == 'un' and t['op'] == '*':
            p = self.E(t['e'], P, fr)
            if p[0] == 'lptr':
                self.lstore((p[1], p[2], p[3] + (('i', p[4]),)), v, P)
                return
            if p[0] == 'addr' and p[1][0] == 'lref':
                P.locals[(p[1][1], p[1][2])] = v
                return
            if p[0] == 'addr' and p[1][0] == 'sym':
                name = p[1][1]
                P.mem[name] = v
                self.trace.writes.setdefault(name, []).append(loc)
                return
            P.events.append(('write-through', p, loc, v))
            self.trace.writes.setdefault('*' + fmt(p)[:40], []).append(loc)
            return
        if k == 'global':
            self.trace.globals_written.setdefault(t['q'], []).append(loc)
            return
        if self.vecmodel and k == 'call' and t.get('n') in ('operator[]', 'operator*', 'at'):
            if self.vec_store(t, v, P, fr, loc):
                return
        if k == 'index' or (k == 'call' and t.get('n') == 'operator[]'):
            base = t['base'] if k == 'index' else t['args'][0]
            bt = strip(base, casts=True)
            idx_node = t['idx'] if k == 'index' else t['args'][1]
            # the array / vector may be reached through a reference parameter or reference local
            fr_b = fr
            for _ in range(4):
                if bt.get('k') == 'param' and not bt.get('foreign') and bt['i'] < len(fr_b['args']) and fr_b['args'][bt['i']][0] == 'alias':
                    al = fr_b['args'][bt['i']]
                    bt, fr_b = strip(al[1], casts=True), al[2]
                elif bt.get('k') == 'local' and P.locals.get((fr_b['id'], bt['id']), ('x',))[0] == 'alias':
                    al = P.locals[(fr_b['id'], bt['id'])]
                    bt, fr_b = strip(al[1], casts=True), al[2]
                else:
                    break
            if fr_b is not fr:
                iv_ = self.E(idx_node, P, fr)
                if bt.get('k') == 'local':
                    old = P.locals.get((fr_b['id'], bt['id']), ('unk', 'uninitialised container'))
                    P.locals[(fr_b['id'], bt['id'])] = ('call', 'elemstore', (old, iv_, v))
                    return
                if bt.get('k') == 'member':
                    path = self.mpath(bt, P, fr_b)
                    if path:
                        old = P.mem.get(path, ('sym', path))
                        P.mem[path] = ('call', 'elemstore', (old, iv_, v))
                        self.trace.writes.setdefault(path, []).append(loc)
                        P.events.append(('write', path, loc))
                        return
            if bt.get('k') == 'member':
                path = self.mpath(bt, P, fr)
                if path:
                    idx = t['idx'] if k == 'index' else t['args'][1]
                    old = P.mem.get(path, ('sym', path))
                    P.mem[path] = ('call', 'elemstore', (old, self.E(idx, P, fr), v))
                    self.trace.writes.setdefault(path, []).append(loc)
                    P.events.append(('write', path, loc))
                    return
            if bt.get('k') == 'local':
                idx = t['idx'] if k == 'index' else t['args'][1]
                old = P.locals.get((fr['id'], bt['id']), ('unk', 'uninitialised container'))
                iv_ = self.E(idx, P, fr)
                if k == 'index' and iv_[0] == 'num' and iv_[1].denominator == 1 and old[0] != 'lptr':
                    self.lstore((fr['id'], bt['id'], (('i', int(iv_[1])),)), v, P)
                    return
                P.locals[(fr['id'], bt['id'])] = ('call', 'elemstore', (old, iv_, v))
                return
            if k == 'index':
                lv_ = self.lvalue(t, P, fr)
                if lv_ is not None:
                    self.lstore(lv_, v, P)
                    return
            # element of something reached through a pointer / reference (array[i] = v with array a parameter)
            idx = t['idx'] if k == 'index' else t['args'][1]
            P.events.append(('write-through', ('elem', self.E(base, P, fr), self.E(idx, P, fr)), loc, v))
            self.trace.writes.setdefault('*unknown', []).append(loc)
            return
        self.trace.writes.setdefault('*unknown', []).append(loc)

    def assign_ref(self, a, v, P, loc):
        pass

    # ------------------------------------------------------------ calls
    def call(self, e, P, fr):
        q = e.get('q')
        loc = e.get('l')
        if q is None:
            # indirect call through a pointer
            f = self.E(e['indirect'], P, fr)
            ft = f[1] if f[0] in ('addr', 'deref') else f
            if ft[0] == 'sym' and ft[1].startswith('fn:') and self.inline and fr['depth'] < MAX_DEPTH:
                cands = self.prog.by_q.get(ft[1][3:], [])
                if len(cands) == 1 and len(cands[0].params) == len(e['args']):
                    args = [self.ref_or_value(a, p_, P, fr) for a, p_ in zip(e['args'], cands[0].params)]
                    return self.inline_call(cands[0], args, fr['this'], P, fr)
            args = tuple(self.E(a, P, fr) for a in e['args'])
            return ('apply', f, args)
        n = e['n']
        args_e = e['args']
        if e.get('opcall') and n == 'operator()' and args_e:
            # functor call obj(args): args[0] is the object
            obj = args_e[0]
            args_e = args_e[1:]
        else:
            obj = e.get('obj')
        hook2 = getattr(self, 'call_hook', None)
        if hook2 is not None:
            r = hook2(self, e, n, obj, args_e, P, fr)
            if r is not None:
                return r
        if e.get('opcall') and n == 'operator[]':
            bt_, it_ = self.E(args_e[0], P, fr), self.E(args_e[1], P, fr)
            if self.vecmodel:
                ci = self.const_int(it_)
                self.trace.vec_access.setdefault(loc, set()).add('unknown' if bt_[0] != 'cvec' or ci is None else ('ok' if 0 <= ci < len(bt_[1]) else 'oob'))
            return self.elem_of(bt_, it_)
        if not e.get('inrepo'):
            args = tuple(self.E(a, P, fr) for a in args_e)
            if n in MATH:
                return ('call', n, args)
            if n == 'make_pair' and len(args) == 2:
                return ('pair', args[0], args[1])
            if n in ('min', 'max') and len(args) == 2 and (q or '').startswith('std::'):
                # std::min(a,b) = (b < a) ? b : a ; std::max(a,b) = (a < b) ? b : a
                c_ = ('cmp', '<', args[1], args[0]) if n == 'min' else ('cmp', '<', args[0], args[1])
                tv_ = self.truth(c_)
                if tv_ is True:
                    return args[1]
                if tv_ is False:
                    return args[0]
                return ('ite', c_, args[1], args[0])
            if n in ('accumulate', 'inner_product') and q.startswith('std::') and len(args_e) == (3 if n == 'accumulate' else 4):
                cnt = self.array_pointer(args[1], args[0], '-')
                if cnt is not None and cnt[0] == 'num' and 0 <= cnt[1] <= 64:
                    xs = self.ptr_elems(args[0], int(cnt[1]), P)
                    ys = self.ptr_elems(args[2], int(cnt[1]), P) if n == 'inner_product' else None
                    if xs is not None and (ys is not None or n == 'accumulate'):
                        acc = args[-1]
                        ity = str(strip(args_e[-1]).get('t', '')) if isinstance(strip(args_e[-1]), dict) else ''
                        for i_ in range(int(cnt[1])):
                            term_ = xs[i_] if ys is None else ('mul', (xs[i_], ys[i_]))
                            acc = ('add', (acc, term_))
                            if ity in self.INT_RANGES:
                                acc = ('call', 'trunc', (acc,))      # the accumulator has the (integer) type of the initial value
                        return acc
            if n == 'accumulate' and len(args_e) == 3 and q.startswith('std::'):
                b_, e_ = strip(args_e[0], casts=True), strip(args_e[1], casts=True)
                while b_.get('k') == 'construct' and len(b_['args']) == 1:
                    b_ = strip(b_['args'][0], casts=True)
                while e_.get('k') == 'construct' and len(e_['args']) == 1:
                    e_ = strip(e_['args'][0], casts=True)
                if b_.get('k') == 'call' and b_.get('n') in ('begin', 'cbegin') and e_.get('k') == 'call' and e_.get('n') in ('end', 'cend') and \
                        b_.get('obj') is not None and e_.get('obj') is not None:
                    vb, ve = self.E(b_['obj'], P, fr), self.E(e_['obj'], P, fr)
                    if vb == ve and vb[0] == 'call' and vb[1] == 'vfill' and size_of(vb[2][0]) == vb[2][1] and str(strip(args_e[2]).get('t', '')) not in self.INT_RANGES:
                        # every element was written by the fill loop that precedes: sum over i < N of the element expression
                        return ('add', (args[2], ('call', 'sumfill', (vb[2][1], vb[2][2]))))
                    if vb == ve:
                        ity_ = strip(args_e[2])
                        if isinstance(ity_, dict) and str(ity_.get('t', '')) in self.INT_RANGES:
                            # the accumulator has the integer type of the initial value: every partial sum is truncated
                            return ('call', 'int_accumulate', (args[2], vb))
                        return ('add', (args[2], ('call', 'vsum', (vb,))))
            if self.vecmodel:
                r = self.vec_call(e, n, obj, args_e, args, P, fr, loc)
                if r is not None:
                    return r
            if n == 'size' and obj is not None:
                return size_of(self.E(obj, P, fr))
            if n in ('at',) and obj is not None:
                return ('elem', self.E(obj, P, fr), args[0])
            if n == 'signaling_NaN' or n == 'quiet_NaN':
                return ('call', n, ())
            if n == 'epsilon':
                return ('sym', 'const:epsilon')
            if n == 'operator<<':
                for i_, a in enumerate(args):
                    if a[0] == 'str':
                        P.events.append(('print', a[1], loc))
                    elif i_ > 0 and not (a[0] == 'sym' and a[1].startswith('fn:std::')) and not (a[0] == 'unk' and a[1] == 'ostream'):
                        P.events.append(('print-value', a, loc))
                return ('unk', 'ostream')
            if n in ('exit', '_exit', '_Exit', 'abort', 'quick_exit', 'terminate'):
                P.events.append(('terminate', (n, args), loc))
                P.exit_hit = loc
                return ('unk', 'noreturn')
            self.trace.lib_calls.append((q, loc))
            MUT = ('resize', 'push_back', 'assign', 'clear', 'operator=', 'insert', 'erase', 'pop_back', 'swap', 'replace', 'append', 'operator+=')
            if e.get('opcall') and args_e and n not in ('operator()',):
                # overloaded operator on a library type: first argument is the object
                ob = strip(args_e[0], casts=True)
                if n in ('operator=', 'operator+=') and ob.get('k') == 'member':
                    path = self.mpath(ob, P, fr)
                    if path is not None:
                        self.trace.obj_calls.append((path, n, args[1:], loc))
                        P.events.append(('write', path, loc))
                        P.mem[path] = args[1] if n == 'operator=' and len(args) > 1 else ('call', 'container:' + n, args)
                        self.trace.writes.setdefault(path, []).append(loc)
                        return ('sym', path)
                if n == 'operator+' and len(args) == 2 and args[0][0] == 'str' and args[1][0] == 'str':
                    return ('str', args[0][1] + args[1][1])
                if n == 'operator+=' and len(args) == 2 and args[0][0] == 'str' and args[1][0] == 'str' and ob.get('k') in ('local', 'param'):
                    self.assign(args_e[0], ('str', args[0][1] + args[1][1]), P, fr, loc)
                    return ('str', args[0][1] + args[1][1])
                if n in ('operator=', 'operator+=') and ob.get('k') == 'local':
                    cur_ = P.locals.get((fr['id'], ob['id']))
                    if cur_ is not None and cur_[0] == 'alias' and n == 'operator=' and len(args) > 1:
                        # reference local: the assignment goes to what it is bound to
                        self.assign(args_e[0], args[1], P, fr, loc)
                        return args[0]
                    P.locals[(fr['id'], ob['id'])] = args[1] if n == 'operator=' and len(args) > 1 else ('call', 'container:' + n, args)
                    return args[0]
                if n in ('operator++', 'operator--') and ob.get('k') == 'local':
                    P.locals[(fr['id'], ob['id'])] = ('call', 'op:' + n, args[:1])
                    return args[0]
                if n == 'operator=':
                    # store through something else (e.g. *ptr = value, map[key] = value)
                    self.assign(args_e[0], args[1] if len(args) > 1 else ('unk', 'assign'), P, fr, loc)
                    return args[0]
                return ('call', 'op:' + n, args)
            if obj is not None and n == 'append' and len(args) == 1 and args[0][0] == 'str':
                so = self.E(obj, P, fr)
                if so[0] == 'str' and strip(obj, casts=True).get('k') in ('local', 'param'):
                    self.assign(obj, ('str', so[1] + args[0][1]), P, fr, loc)
                    return ('str', so[1] + args[0][1])
            if obj is not None and n in ('empty', 'size', 'length', 'compare', 'c_str', 'data'):
                so = self.E(obj, P, fr)
                if so[0] == 'str':
                    # std::string holding a known literal
                    if n == 'empty':
                        return num(int(so[1] == ''))
                    if n in ('size', 'length'):
                        return num(len(so[1]))
                    if n in ('c_str', 'data'):
                        return so
                    if n == 'compare':
                        a_ = None
                        if len(args) == 1 and args[0][0] == 'str':
                            a_, b_ = so[1], args[0][1]
                        elif len(args) == 3 and args[2][0] == 'str' and self.const_int(args[0]) is not None and self.const_int(args[1]) is not None:
                            p0, l0 = self.const_int(args[0]), self.const_int(args[1])
                            if 0 <= p0 <= len(so[1]) and l0 >= 0:
                                a_, b_ = so[1][p0:p0 + l0], args[2][1]
                        if a_ is not None:
                            return num((a_ > b_) - (a_ < b_))
            if e.get('opcall') and n in ('operator==', 'operator!=') and len(args) == 2 and args[0][0] == 'str' and args[1][0] == 'str':
                return num(int((args[0][1] == args[1][1]) == (n == 'operator==')))
            if obj is not None:
                ob = strip(obj, casts=True)
                fr_o = fr
                # a reference parameter / reference local bound to a member is that member
                for _ in range(4):
                    if ob.get('k') == 'param' and not ob.get('foreign') and ob['i'] < len(fr_o['args']) and fr_o['args'][ob['i']][0] == 'alias':
                        al = fr_o['args'][ob['i']]
                        ob, fr_o = strip(al[1], casts=True), al[2]
                    elif ob.get('k') == 'local' and P.locals.get((fr_o['id'], ob['id']), ('x',))[0] == 'alias':
                        al = P.locals[(fr_o['id'], ob['id'])]
                        ob, fr_o = strip(al[1], casts=True), al[2]
                    else:
                        break
                if ob.get('k') == 'member':
                    path = self.mpath(ob, P, fr_o)
                    if path is not None:
                        self.trace.obj_calls.append((path, n, args, loc))
                        if n in MUT:
                            P.events.append(('write', path, loc))
                            P.mem[path] = ('call', 'container:' + n, (P.mem.get(path, ('sym', '@old:' + path)),) + tuple(args))
                            self.trace.writes.setdefault(path, []).append(loc)
                            return ('unk', 'call ' + q)
                        return ('mcall', self.read_member(path, P, loc), n, args)
                ot = self.E(obj, P, fr)
                if n in MUT:
                    if ob.get('k') == 'local':
                        P.locals[(fr_o['id'], ob['id'])] = ('call', 'container:' + n, (ot,) + tuple(args))
                    else:
                        # mutation through a pointer/reference parameter or other alias
                        P.events.append(('write-through', ot, loc, ('call', 'container:' + n, (ot,) + tuple(args))))
                        self.trace.writes.setdefault('*' + fmt(ot)[:40], []).append(loc)
                    return ('unk', 'call ' + q)
                return ('mcall', ot, n, args)
            self.trace.unknown_calls.append((q, loc))
            P.events.append(('libcall', (n, args), loc))
            return ('call', 'lib:' + n, args)
        # ---- repository function
        self.trace.calls.append((q, loc))
        hook = getattr(self, 'opaque_hook', None)
        if hook is not None:
            opath = None
            if obj is not None:
                ob = strip(obj, casts=True)
                if ob.get('k') == 'member':
                    opath = self.mpath(ob, P, fr)
                elif ob.get('k') == 'this':
                    opath = fr['this']
            r = hook(e, opath, n, lambda: tuple(self.E(a, P, fr) for a in args_e))
            if r is not None:
                return r
        if n in self.noreturn:
            args = tuple(self.E(a, P, fr) for a in args_e)
            P.events.append(('noreturn-call', (n, args), loc))
            P.exit_hit = loc
            return ('unk', 'noreturn')
        if n in ('set_var', 'set_vec') and 'manufactured_solution<' in e.get('rec', ''):
            from .ast import str_value
            nm = str_value(args_e[0])
            t0 = None
            if nm is None:
                t0 = self.E(args_e[0], P, fr)
                if t0[0] == 'str':
                    nm = t0[1]
            val = self.E(args_e[1], P, fr)
            self.trace.setvar_calls.append((nm, loc, n, val))
            if nm is None and t0 is not None and self.regmap is not None and n == 'set_var' and t0[0] == 'field' and t0[2] == 'first' and \
                    t0[1][0] == 'call' and t0[1][1] in ('op:operator->', 'op:operator*') and len(t0[1][2]) == 1:
                it_ = t0[1][2][0]
                it0 = it_[2][0] if (it_[0] == 'call' and it_[1] == 'loopvar') else it_
                if it0[0] == 'mcall' and it0[1][0] == 'sym' and it0[1][1].split('.')[-1] == 'varmap' and it0[2] in ('begin', 'cbegin'):
                    # set_var(it->first, v) inside a loop over the object's own varmap: every registered scalar receives v
                    # (the caller checks that the loop is a whole-map traversal: trace.setvar_all)
                    self.trace.setvar_all.append((val, loc))
                    for path_ in set(self.regmap.values()):
                        P.mem[path_] = val
                        self.trace.writes.setdefault(path_, []).append(loc)
                    return num(0)
            if self.regmap is not None:
                path = self.regmap.get(nm)
                if path is not None:
                    P.mem[path] = val
                    self.trace.writes.setdefault(path, []).append(loc)
                    return num(0)
                return num(1)
        target = self.resolve(e, P, fr, obj)
        if target is None and e.get('opcall') and n == 'operator=' and len(args_e) == 2 and not self.prog.by_q.get(q):
            # implicitly defined copy / move assignment of a plain struct of the repository: an assignment
            v_ = self.E(args_e[1], P, fr)
            self.assign(args_e[0], v_, P, fr, loc)
            return v_
        if target is None or not self.inline or n in self.opaque or fr['depth'] >= MAX_DEPTH:
            args = tuple(self.E(a, P, fr) for a in args_e)
            self.trace.unknown_calls.append((q, loc))
            objt = None
            if obj is not None:
                try:
                    objt = self.E(obj, P, fr)
                except Exception:
                    objt = ('unk', 'object')
            P.events.append(('call', (q, args, objt, e.get('sig'), bool(e.get('virt'))), loc))
            return ('call', 'repo:' + n, args)
        fn, this_path = target
        args = []
        for a, p in zip(args_e, fn.params):
            args.append(self.ref_or_value(a, p, P, fr))
        self._fork_now = getattr(self, '_fork_node', None) is e
        return self.inline_call(fn, args, this_path, P, fr)

    def array_pointer(self, a, b, op):
        """pointer arithmetic and comparison on pointers into a constant array: ('aptr', array value, index); a bare array
        value stands for the pointer to its first element"""
        def ap(t):
            if t[0] == 'aptr':
                return t[1], t[2]
            if t[0] == 'arr' or (t[0] == 'call' and t[1] == 'elemstore' and all_const_stores(t)):
                return t, 0
            return None
        if a[0] == 'lptr' and b[0] != 'lptr' and op in ('+', '-'):
            k_ = self.const_int(b)
            if k_ is not None:
                return a[:4] + (a[4] + (k_ if op == '+' else -k_),)
        if b[0] == 'lptr' and a[0] != 'lptr' and op == '+':
            k_ = self.const_int(a)
            if k_ is not None:
                return b[:4] + (b[4] + k_,)
        if a[0] == 'lptr' and b[0] == 'lptr' and a[:4] == b[:4]:
            if op == '-':
                return num(a[4] - b[4])
            if op in ('==', '!=', '<', '>', '<=', '>='):
                x, y = a[4], b[4]
                return num(int({'==': x == y, '!=': x != y, '<': x < y, '>': x > y, '<=': x <= y, '>=': x >= y}[op]))
        pa, pb = ap(a), ap(b)
        if pa is not None and pb is None and op in ('+', '-'):
            k_ = self.const_int(b)
            if k_ is not None:
                return ('aptr', pa[0], pa[1] + (k_ if op == '+' else -k_))
        if pb is not None and pa is None and op == '+':
            k_ = self.const_int(a)
            if k_ is not None:
                return ('aptr', pb[0], pb[1] + k_)
        if pa is not None and pb is not None and pa[0] == pb[0]:
            if op == '-':
                return num(pa[1] - pb[1])
            if op in ('==', '!=', '<', '>', '<=', '>='):
                x, y = pa[1], pb[1]
                return num(int({'==': x == y, '!=': x != y, '<': x < y, '>': x > y, '<=': x <= y, '>=': x >= y}[op]))
        return None

    @staticmethod
    def elem_of(bt, it):
        if bt[0] == 'aptr' and it[0] == 'num' and it[1].denominator == 1:
            bt, it = bt[1], num(bt[2] + int(it[1]))
        # read over a chain of stores at constant positions: A[i := v][j] is v when i == j, A[j] when both are constants and differ
        while bt[0] == 'call' and bt[1] == 'elemstore' and len(bt[2]) == 3 and it[0] == 'num' and bt[2][1][0] == 'num':
            if bt[2][1] == it:
                return bt[2][2]
            bt = bt[2][0]
        if bt[0] == 'cvec' and it[0] == 'num' and it[1].denominator == 1 and 0 <= int(it[1]) < len(bt[1]) and bt[1][int(it[1])] is not None:
            return bt[1][int(it[1])]
        if bt[0] == 'arr' and it[0] == 'num' and it[1].denominator == 1 and 0 <= int(it[1]) < len(bt[1]):
            return bt[1][int(it[1])]
        return ('elem', bt, it)

    # ------------------------------------------------------------ concrete vectors (vecmodel)
    def vec_key(self, node, P, fr):
        o = strip(node, casts=True)
        if o.get('k') == 'member':
            pth = self.mpath(o, P, fr)
            if pth is not None and pth in P.mem and P.mem[pth][0] == 'alias':
                return self.vec_key(P.mem[pth][1], P, P.mem[pth][2])
            return ('m', pth) if pth is not None else None
        if o.get('k') == 'local':
            cur = P.locals.get((fr['id'], o['id']))
            if cur is not None and cur[0] == 'alias':
                return self.vec_key(cur[1], P, cur[2])
            return ('l', fr['id'], o['id'])
        if o.get('k') == 'param':
            v = fr['args'][o['i']] if o['i'] < len(fr['args']) else None
            if v is not None and v[0] == 'alias':
                return self.vec_key(v[1], P, v[2])
        return None

    def vec_get(self, key, P):
        if key is None:
            return None
        return P.mem.get(key[1]) if key[0] == 'm' else P.locals.get((key[1], key[2]))

    def vec_put(self, key, val, P, loc):
        if key[0] == 'm':
            P.mem[key[1]] = val
            self.trace.writes.setdefault(key[1], []).append(loc)
            P.events.append(('write', key[1], loc))
        else:
            P.locals[(key[1], key[2])] = val

    @staticmethod
    def const_int(t):
        if t[0] == 'call' and t[1] == 'trunc':
            t = t[2][0]
        if t[0] == 'num' and t[1].denominator == 1:
            return int(t[1])
        return None

    def vec_store(self, t, v, P, fr, loc):
        """V[i] = v / V.at(i) = v / *it = v on a concretely modelled vector"""
        n = t.get('n')
        if n == 'operator*' and t.get('opcall') and len(t['args']) == 1:
            it = self.E(t['args'][0], P, fr)
            if it[0] != 'viter':
                return False
            key, idx = it[1], it[2]
        else:
            base = t['args'][0] if t.get('opcall') else t.get('obj')
            ix = t['args'][1] if t.get('opcall') else (t['args'][0] if t.get('args') else None)
            if base is None or ix is None:
                return False
            key = self.vec_key(base, P, fr)
            idx = self.const_int(self.E(ix, P, fr))
        cur = self.vec_get(key, P)
        if cur is None or cur[0] != 'cvec':
            self.trace.vec_access.setdefault(t.get('l'), set()).add('unknown')
            return False
        self.trace.vec_access.setdefault(t.get('l'), set()).add('unknown' if idx is None else ('ok' if 0 <= idx < len(cur[1]) else 'oob'))
        if idx is None or not (0 <= idx < len(cur[1])):
            # store at an unknown / out-of-range position: nothing is known about the elements any more
            self.vec_put(key, ('unk', 'vector stored at non-constant index'), P, loc)
            return True
        el = list(cur[1])
        el[idx] = v
        self.vec_put(key, ('cvec', tuple(el)), P, loc)
        return True

    def vec_call(self, e, n, obj, args_e, args, P, fr, loc):
        """library calls on concretely modelled vectors and their iterators; None when not applicable"""
        num_ = num
        if obj is not None and not e.get('opcall'):
            key = self.vec_key(obj, P, fr)
            cur = self.vec_get(key, P)
            iscv = cur is not None and cur[0] == 'cvec'
            if key is None:
                return None
            if n == 'resize':
                k_ = self.const_int(args[0]) if args else None
                if k_ is None or k_ < 0 or k_ > 4096:
                    return None
                fillv = args[1] if len(args) > 1 else num_(0)
                old = cur[1] if iscv else None
                el = tuple(old[:k_]) + (fillv,) * max(0, k_ - len(old)) if old is not None else (None,) * k_
                self.trace.obj_calls.append((key[1] if key[0] == 'm' else '?', n, args, loc))
                self.vec_put(key, ('cvec', el), P, loc)
                return ('unk', 'void')
            if n == 'assign' and len(args) == 2 and self.const_int(args[0]) is not None and args[1][0] != 'viter' and 0 <= self.const_int(args[0]) <= 4096:
                self.trace.obj_calls.append((key[1] if key[0] == 'm' else '?', n, args, loc))
                self.vec_put(key, ('cvec', (args[1],) * self.const_int(args[0])), P, loc)
                return ('unk', 'void')
            if n == 'clear':
                self.trace.obj_calls.append((key[1] if key[0] == 'm' else '?', n, args, loc))
                self.vec_put(key, ('cvec', ()), P, loc)
                return ('unk', 'void')
            if not iscv:
                return None
            if n == 'push_back' and len(args) == 1:
                self.trace.obj_calls.append((key[1] if key[0] == 'm' else '?', n, args, loc))
                self.vec_put(key, ('cvec', cur[1] + (args[0],)), P, loc)
                return ('unk', 'void')
            if n == 'size':
                return num_(len(cur[1]))
            if n == 'empty':
                return num_(int(len(cur[1]) == 0))
            if n in ('begin', 'cbegin'):
                return ('viter', key, 0)
            if n in ('end', 'cend'):
                return ('viter', key, len(cur[1]))
            if n == 'at' and args:
                return self.elem_of(cur, args[0])
            if n in ('front', 'back') and cur[1]:
                return self.elem_of(cur, num_(0 if n == 'front' else len(cur[1]) - 1))
            return None
        if e.get('opcall') and args and args[0][0] == 'viter':
            it = args[0]
            ob = strip(args_e[0], casts=True)
            if n in ('operator++', 'operator--'):
                d = 1 if n == 'operator++' else -1
                new = ('viter', it[1], it[2] + d)
                if ob.get('k') in ('local', 'param'):
                    self.assign(ob, new, P, fr, loc)
                    return it if len(args) > 1 else new      # postfix form carries a dummy int argument
                return None
            if n in ('operator+', 'operator-', 'operator+=', 'operator-=') and len(args) == 2:
                if args[1][0] == 'viter' and n == 'operator-' and args[1][1] == it[1]:
                    return num_(it[2] - args[1][2])
                k_ = self.const_int(args[1])
                if k_ is None:
                    return None
                new = ('viter', it[1], it[2] + (k_ if '+' in n else -k_))
                if n.endswith('=') and ob.get('k') in ('local', 'param'):
                    self.assign(ob, new, P, fr, loc)
                return new
            if n in ('operator==', 'operator!=', 'operator<', 'operator>', 'operator<=', 'operator>=') and len(args) == 2 and args[1][0] == 'viter' and args[1][1] == it[1]:
                a_, b_ = it[2], args[1][2]
                return num_(int({'==': a_ == b_, '!=': a_ != b_, '<': a_ < b_, '>': a_ > b_, '<=': a_ <= b_, '>=': a_ >= b_}[n[8:]]))
            if n == 'operator*' and len(args) == 1:
                cur = self.vec_get(it[1], P)
                if cur is not None and cur[0] == 'cvec':
                    return self.elem_of(cur, num_(it[2]))
                return None
            if n == 'operator[]' and len(args) == 2 and self.const_int(args[1]) is not None:
                cur = self.vec_get(it[1], P)
                if cur is not None and cur[0] == 'cvec':
                    return self.elem_of(cur, num_(it[2] + self.const_int(args[1])))
            return None
        if n in ('fill', 'fill_n') and len(args) == 3 and args[0][0] == 'viter':
            key = args[0][1]
            cur = self.vec_get(key, P)
            lo = args[0][2]
            hi = args[1][2] if (n == 'fill' and args[1][0] == 'viter' and args[1][1] == key) else (lo + self.const_int(args[1]) if n == 'fill_n' and self.const_int(args[1]) is not None else None)
            if cur is None or cur[0] != 'cvec' or hi is None or not (0 <= lo <= hi <= len(cur[1])):
                return None
            el = list(cur[1])
            for i in range(lo, hi):
                el[i] = args[2]
            self.vec_put(key, ('cvec', tuple(el)), P, loc)
            return ('unk', 'void')
        if n in ('copy', 'copy_n') and len(args) == 3 and args[2][0] == 'viter':
            # destination is a modelled vector: the source range must be a constant array (or a modelled vector)
            key = args[2][1]
            cur = self.vec_get(key, P)
            src = None
            if args[0][0] == 'arr':
                cnt = None
                if n == 'copy_n':
                    cnt = self.const_int(args[1])
                elif args[1][0] == 'add' and len(args[1][1]) == 2 and args[1][1][0] == args[0]:
                    cnt = self.const_int(args[1][1][1])
                if cnt is not None and 0 <= cnt <= len(args[0][1]):
                    src = list(args[0][1][:cnt])
            elif args[0][0] == 'viter':
                sv = self.vec_get(args[0][1], P)
                hi = args[1][2] if (n == 'copy' and args[1][0] == 'viter' and args[1][1] == args[0][1]) else None
                if sv is not None and sv[0] == 'cvec' and hi is not None:
                    src = list(sv[1][args[0][2]:hi])
            if cur is None or cur[0] != 'cvec':
                return None
            if src is None or args[2][2] + len(src) > len(cur[1]):
                self.vec_put(key, ('unk', 'vector written by %s from an unmodelled range' % n), P, loc)
                return ('unk', 'void')
            el = list(cur[1])
            for i, x in enumerate(src):
                el[args[2][2] + i] = x
            self.vec_put(key, ('cvec', tuple(el)), P, loc)
            return ('viter', key, args[2][2] + len(src))
        # any other library routine receiving an iterator into a modelled vector may write through it
        for a in args:
            if a[0] == 'viter':
                cur = self.vec_get(a[1], P)
                if cur is not None and cur[0] == 'cvec':
                    self.vec_put(a[1], ('unk', 'vector passed to unmodelled routine ' + n), P, loc)
        return None

    def construct_object(self, e, P, fr):
        """temporary / local object of a repository class built by one of its own constructors: the constructor's
        initialiser list and body are executed on a fresh object path; the value is a reference to that object"""
        ty = str(e.get('t', '')).replace('const ', '')
        if ty not in self.prog.records or fr['depth'] >= MAX_DEPTH:
            return None
        ctor = [f for f in self.prog.methods_of(ty) if f.get('ctor') and f.sig == e.get('ctor')]
        if len(ctor) != 1 or len(ctor[0].params) != len(e['args']):
            return None
        fn = ctor[0]
        self._obj_n = getattr(self, '_obj_n', 0) + 1
        tmp = '@obj%d' % self._obj_n
        args = [self.ref_or_value(a, p_, P, fr) for a, p_ in zip(e['args'], fn.params)]
        sub = {'id': self.new_frame_id(), 'args': list(args), 'this': tmp, 'depth': fr['depth'] + 1, 'fn': fn}
        ftypes = {x['n']: str(x.get('t', '')) for x in self.prog.records.get(ty, {}).get('fields', [])}
        for i in fn.inits:
            if i.get('member') and i.get('e') is not None:
                ft = ftypes.get(i['member'], '')
                tgt = strip(i['e'], casts=True)
                if ft.endswith('&') and not ft.endswith('&&') and tgt.get('k') in ('param', 'local', 'member'):
                    # reference member: bound to what the initialiser designates
                    if tgt.get('k') == 'param' and not tgt.get('foreign') and tgt['i'] < len(sub['args']) and sub['args'][tgt['i']][0] == 'alias':
                        P.mem[tmp + '.' + i['member']] = sub['args'][tgt['i']]
                    else:
                        P.mem[tmp + '.' + i['member']] = ('alias', i['e'], sub)
                    continue
                P.mem[tmp + '.' + i['member']] = self.E(i['e'], P, sub)
        outs = self.exec_block(stmts(fn.body), [P], sub, top=True) if fn.body is not None else [P]
        if len(outs) != 1 or outs[0].kind == 'exit':
            return None
        self.adopt(P, outs[0])
        self.trace.inlined.add(fn.q)
        return ('sym', 'this:' + tmp)

    def ref_or_value(self, a, p, P, fr):
        """argument for parameter p: non-const lvalue references to members / locals are passed as aliases"""
        ty = str(p.get('t', ''))
        if '(&)[' in ty and 'const' not in ty.split('(&)')[0]:
            ty = 'T &'      # reference to a (non-const) array: same treatment as any other reference parameter
        if ty.endswith('&') and not ty.endswith('&&') and not ty.startswith('const '):
            tgt = strip(a, casts=True)
            if tgt.get('k') == 'param' and not tgt.get('foreign') and tgt['i'] < len(fr['args']) and fr['args'][tgt['i']][0] == 'alias':
                return fr['args'][tgt['i']]
            if tgt.get('k') == 'index' and self.lvalue(tgt, P, fr) is not None:
                return ('alias', a, fr)
            if tgt.get('k') in ('member', 'local') or (tgt.get('k') == 'un' and tgt['op'] == '*'):
                if tgt.get('k') == 'local':
                    cur = P.locals.get((fr['id'], tgt['id']))
                    if cur is not None and cur[0] == 'alias':
                        return cur
                return ('alias', a, fr)
        if ty.rstrip().endswith('*'):
            # an array inside a local aggregate handed to a pointer parameter: the callee reads and writes the caller's elements
            tgt = strip(a, casts=True)
            if isinstance(tgt, dict) and tgt.get('k') in ('member', 'index', 'local') and ('[' in str(tgt.get('t', '')) or tgt.get('t') is None):
                lv_ = self.lvalue(tgt, P, fr)
                cur_ = self.lload(lv_, P) if lv_ is not None else None
                if cur_ is not None and (cur_[0] in ('unk', 'elem') or (cur_[0] == 'call' and cur_[1] == 'elemstore')):
                    return ('lptr', lv_[0], lv_[1], lv_[2], 0)
        return self.E(a, P, fr)

    def resolve(self, e, P, fr, obj):
        """(Fn, this_path) of the function executed by call e, or None"""
        q, sig = e['q'], e['sig']
        prog = self.prog
        if e.get('rec') and not e.get('smeth'):
            # member call: work out the object path
            if obj is None:
                return None
            o = strip(obj, casts=True)
            if o.get('k') == 'this':
                this_path = fr['this']
                # virtual dispatch on the entry object
                if e.get('virt') and self.dyn_class and fr['this'] == '':
                    owner, m = cat.resolve_virtual(prog, self.dyn_class, e['n'], sig)
                    if owner is None:
                        return None
                    c = prog.fn(owner + '::' + e['n'], sig)
                    return (c[0], this_path) if c else None
            elif o.get('k') == 'member':
                this_path = self.mpath(o, P, fr)
                if this_path is None:
                    return None
                pv = P.mem.get(this_path)
                if pv is not None and pv[0] == 'sym' and pv[1].startswith('this:'):
                    this_path = pv[1][5:]
                    if e.get('virt') and self.dyn_class and this_path == '':
                        owner, m = cat.resolve_virtual(prog, self.dyn_class, e['n'], sig)
                        c = prog.fn(owner + '::' + e['n'], sig) if owner else None
                        return (c[0], this_path) if c else None
            elif o.get('k') == 'un' and o['op'] == '*':
                t = self.E(o['e'], P, fr)
                if t[0] == 'sym' and t[1].startswith('this:'):
                    this_path = t[1][5:]
                else:
                    return None
            elif o.get('k') in ('local', 'param'):
                t = self.E(o, P, fr)
                if t[0] == 'sym' and t[1].startswith('this:'):
                    this_path = t[1][5:]
                elif t[0] == 'sym':
                    this_path = t[1]
                else:
                    return None
                if e.get('virt') and not (this_path == '' and self.dyn_class):
                    return None     # virtual call on an object whose dynamic type is not known: not resolved
                if e.get('virt') and this_path == '' and self.dyn_class:
                    owner, m = cat.resolve_virtual(prog, self.dyn_class, e['n'], sig)
                    c = prog.fn(owner + '::' + e['n'], sig) if owner else None
                    return (c[0], this_path) if c else None
            elif o.get('k') == 'construct' and not e.get('virt'):
                # member call on a temporary of a repository class: Helper(*this, x).value()
                t = self.E(o, P, fr)
                if t[0] == 'sym' and t[1].startswith('this:@obj'):
                    this_path = t[1][5:]
                else:
                    return None
            elif o.get('k') in ('call', 'global') and not e.get('virt'):
                # object designated by an accessor (masa_master<S>() returns a reference to a global) or a global itself
                if o.get('k') == 'call' and not o.get('inrepo'):
                    return None
                t = self.E(o, P, fr)
                if t[0] == 'sym' and t[1].startswith('global:'):
                    this_path = t[1]
                elif t[0] == 'sym' and t[1].startswith('this:'):
                    this_path = t[1][5:]
                else:
                    return None
            else:
                return None
            c = prog.fn(q, sig)
            if not c:
                return None
            return c[0], this_path
        c = prog.fn(q, sig)
        if not c:
            return None
        return c[0], fr['this']

    def inline_call(self, fn, args, this_path, P, fr):
        fork_here = getattr(self, '_fork_now', False)
        self._fork_now = False
        self.trace.inlined.add(fn.q)
        self.trace.max_depth = max(self.trace.max_depth, fr['depth'] + 1)
        sub = {'id': self.new_frame_id(), 'args': list(args), 'this': this_path, 'depth': fr['depth'] + 1, 'fn': fn}
        # execute on the single current path; callee paths are folded into an ite chain
        self.call_stack.append(fn.q)
        try:
            outs = self.exec_block(stmts(fn.body), [P], sub, top=True)
        finally:
            self.call_stack.pop()
        exits = [p for p in outs if p.kind == 'exit']
        if exits:
            self.trace.exit_paths.extend(exits)
            outs = [p for p in outs if p.kind != 'exit']
            if not outs:
                # the callee never returns on this path
                e0 = exits[0]
                P.events = e0.events
                P.conds = e0.conds
                P.exit_hit = e0.exit_hit or '?'
                return ('unk', 'noreturn')
        if len(outs) == 1:
            p = outs[0]
            r = p.ret if p.kind == 'ret' and p.ret is not None else ('unk', 'void')
            self.adopt(P, p)
            return r
        if fork_here:
            res = []
            for p in outs:
                r = p.ret if (p.kind == 'ret' and p.ret is not None) else ('unk', 'void')
                p.kind, p.ret = 'fall', None
                res.append((p, r))
            raise ForkSignal(res)
        # several paths through the callee: keep P's state as the merge (members written on
        # any path become ite terms)
        base_conds = len(P.conds)
        val = None
        for p in reversed(outs):
            r = p.ret if (p.kind == 'ret' and p.ret is not None) else ('unk', 'void')
            c = p.conds[base_conds:]
            if val is None:
                val = r
            else:
                cond = c[0] if len(c) == 1 else ('andlist', tuple(c))
                val = ('ite', cond, r, val)
        # effects that differ between the callee's paths are kept as one `branch` event (flattened by effect analyses)
        n0 = len(P.events)
        if any(len(p.events) > n0 for p in outs):
            P.events = P.events + [('branch', (None, tuple((p.kind, tuple(p.conds[base_conds:]), tuple(p.events[n0:])) for p in outs)), fn.where)]
        mem_keys = set()
        for p in outs:
            mem_keys |= set(p.mem)
        first = outs[0]
        for kx in mem_keys:
            vals = [p.mem.get(kx) for p in outs]
            if all(v == vals[0] for v in vals):
                P.mem[kx] = vals[0]
            elif all(v is not None for v in vals):
                P.mem[kx] = ('unk', 'path-dependent value of ' + kx)
            else:
                # written on some paths only: not definitely written
                P.mem.pop(kx, None)
        for kx in set().union(*[set(p.locals) for p in outs]):
            vals = [p.locals.get(kx) for p in outs]
            if all(v == vals[0] for v in vals):
                P.locals[kx] = vals[0]
            else:
                P.locals[kx] = ('unk', 'path-dependent local')
        P.kind = 'fall'
        P.ret = None
        return val

    def adopt(self, P, p):
        if p is P:
            P.kind = 'fall'
            P.ret = None
            return
        P.locals = p.locals
        P.mem = p.mem
        P.conds = p.conds
        P.events = p.events
        P.kind = 'fall'
        P.ret = None

    _fid = 0

    def new_frame_id(self):
        Evaluator._fid += 1
        return Evaluator._fid

    # ------------------------------------------------------------ statements
    def exec_block(self, sl, paths, fr, top=False):
        """run statement list on every incoming path; returns outgoing paths (kind fall/ret/break/cont)"""
        live = paths
        done = []
        for s in sl:
            if not live:
                break
            nxt = []
            for P in live:
                for q in self.exec_stmt(s, P, fr):
                    (nxt if q.kind == 'fall' else done).append(q)
            live = nxt
            if len(live) + len(done) > MAX_PATHS:
                self.trace.too_many_paths = True
                live = live[:MAX_PATHS // 2]
        return live + done

    def assume(self, c):
        """invariants supplied by the caller: elements of the containers named in self.assume_nonnull are non-null pointers
        (the registered addresses of the parameter store: C11.S2b / C12.H3 establish that only member addresses get in)"""
        nn = getattr(self, 'assume_nonnull', ())
        if not nn and not getattr(self, 'assume_nonnull_mapped', ()):
            return c
        neg = False
        x = c
        while x[0] == 'not':
            neg = not neg
            x = x[1]
        nm_ = getattr(self, 'assume_nonnull_mapped', ())

        def nonnull(t):
            if t[0] == 'elem' and t[1][0] == 'sym' and t[1][1].split('.')[-1] in nn:
                return True
            # mapped value of an entry found in a map whose values are known to be objects (find(k)->second)
            if nm_ and t[0] == 'field' and t[2] == 'second' and t[1][0] == 'call' and t[1][1] in ('op:operator->', 'op:operator*') and len(t[1][2]) == 1:
                it = t[1][2][0]
                return it[0] == 'mcall' and it[2] == 'find' and it[1][0] == 'sym' and it[1][1].split('.')[-1] in nm_
            return False
        if x[0] == 'cmp' and x[1] in ('==', '!=') and ((nonnull(x[2]) and x[3] == num(0)) or (nonnull(x[3]) and x[2] == num(0))):
            v = (x[1] == '!=') != neg
            return num(int(v))
        if nonnull(x):
            return num(int(not neg))
        return c

    def top_call(self, e):
        """the repository call that is the outermost operation of expression e (through copies and no-op casts), or None"""
        e = strip(e, casts=True) if e is not None else None
        while isinstance(e, dict) and e.get('k') == 'construct' and len(e.get('args', [])) == 1:
            e = strip(e['args'][0], casts=True)
        if isinstance(e, dict) and e.get('k') == 'call' and e.get('inrepo') and e.get('q'):
            return e
        return None

    def eval_forking(self, e, P, fr):
        """[(path, value)] of evaluating e as the outermost expression of a statement: in fork mode a callee with several
        returning paths continues the statement once per path"""
        if not getattr(self, 'unroll_paths', False) or self.top_call(e) is None:
            return [(P, self.E(e, P, fr))]
        saved = getattr(self, '_fork_node', None)
        self._fork_node = self.top_call(e)
        try:
            try:
                v = self.E(e, P, fr)
            finally:
                self._fork_node = saved
                self._fork_now = False
            return [(P, v)]
        except ForkSignal as fs:
            return fs.results

    def exec_stmt(self, s, P, fr):
        if s is None:
            return [P]
        k = s['k']
        if k == 'block':
            return self.exec_block(s['s'], [P], fr)
        if getattr(self, 'unroll_paths', False):
            if k == 'decl' and len(s['vars']) == 1 and s['vars'][0].get('init') is not None and not s['vars'][0].get('static') and \
                    (not str(s['vars'][0].get('t', '')).endswith('&') or (str(s['vars'][0].get('t', '')).startswith('const ') and self.top_call(s['vars'][0]['init']) is not None)):
                v0 = s['vars'][0]
                outs_ = []
                for Q, val in self.eval_forking(v0['init'], P, fr):
                    # a value that selects between alternatives (ternary, helper returning NULL or a pointer) splits the path
                    alts = split_ite([], val, limit=8) if (isinstance(val, tuple) and val and val[0] == 'ite') else [([], val)]
                    for j, (cs_, v_) in enumerate(alts):
                        R_ = Q if j == len(alts) - 1 else Q.fork()
                        for c_ in cs_:
                            R_.conds.append(c_)
                            R_.events.append(('cond', c_, s.get('l')))
                        R_.locals[(fr['id'], v0['id'])] = v_
                        if v0['n'] in self.freeze:
                            self.trace.frozen_values.setdefault(v0['n'], []).append(v_)
                        outs_.append(R_)
                return outs_
            if k == 'return' and s.get('e') is not None and self.top_call(s['e']) is not None:
                outs_ = []
                for Q, val in self.eval_forking(s['e'], P, fr):
                    Q.ret = val
                    Q.kind = 'exit' if Q.exit_hit is not None else 'ret'
                    outs_.append(Q)
                return outs_
            if k == 'call' and self.top_call(s) is not None:
                outs_ = []
                for Q, val in self.eval_forking(s, P, fr):
                    if Q.exit_hit is not None:
                        Q.kind = 'exit'
                    outs_.append(Q)
                return outs_
        if k == 'decl':
            for v in s['vars']:
                if v.get('static'):
                    self.trace.static_locals.append((v['n'], v.get('l')))
                ty = str(v.get('t', ''))
                if v.get('init') is not None and ty.endswith('&') and not ty.endswith('&&'):
                    tgt = strip(v['init'], casts=True)
                    if tgt.get('k') in ('member', 'local', 'index') or (tgt.get('k') == 'un' and tgt['op'] == '*') or \
                            (tgt.get('k') == 'call' and tgt.get('n') in ('operator[]', 'operator*', 'at')):
                        P.locals[(fr['id'], v['id'])] = ('alias', v['init'], fr)
                        continue
                if v.get('static') and not const_object_type(ty):
                    self.trace.mutable_statics.append((v['n'], v.get('l')))
                    # a mutable function-local static keeps whatever an earlier call left in it: unknown on entry
                    P.locals[(fr['id'], v['id'])] = ('sym', 'static:%s:%s' % (fr['fn'].q if fr.get('fn') is not None else '?', v['n']))
                    continue
                if v.get('init') is not None:
                    P.locals[(fr['id'], v['id'])] = self.E(v['init'], P, fr)
                    if v.get('static'):
                        # a const static is initialised once, on the first call: if its initialiser depends on run-time values
                        # (parameters, members, arguments) it is state like any other static
                        v0_ = P.locals[(fr['id'], v['id'])]
                        dyn = [x for x in syms(v0_) if x != 'pi' and not x.startswith(('const:', 'fn:'))] or has_unk(v0_)
                        if dyn:
                            self.trace.mutable_statics.append((v['n'], v.get('l')))
                            P.locals[(fr['id'], v['id'])] = ('sym', 'static:%s:%s' % (fr['fn'].q if fr.get('fn') is not None else '?', v['n']))
                    if v['n'] in self.freeze:
                        self.trace.frozen_values.setdefault(v['n'], []).append(P.locals[(fr['id'], v['id'])])
                else:
                    P.locals.pop((fr['id'], v['id']), None)
            return [P]
        if k == 'return':
            P.ret = self.E(s['e'], P, fr) if s.get('e') is not None else None
            P.kind = 'exit' if P.exit_hit is not None else 'ret'
            return [P]
        if k == 'break':
            P.kind = 'break'
            return [P]
        if k == 'continue':
            P.kind = 'cont'
            return [P]
        if k == 'null':
            return [P]
        if k == 'if' and getattr(self, 'unroll_paths', False) and not getattr(self, '_in_if_fork', False):
            # `if (helper(...))` / `if (!helper(...))` with a helper that has several returning paths: continue once per path
            ce = strip(s['c'], casts=True)
            nots = 0
            while isinstance(ce, dict) and ce.get('k') == 'un' and ce.get('op') == '!':
                nots += 1
                ce = strip(ce['e'], casts=True)
            if self.top_call(ce) is not None:
                res_ = self.eval_forking(ce, P, fr)
                if len(res_) > 1:
                    outs = []
                    for Q, val in res_:
                        cv = val
                        for _ in range(nots):
                            cv = ('not', cv)
                        outs += self.exec_if(s, Q, fr, self.assume(cv))
                    return outs
                if len(res_) == 1 and res_[0][0] is P:
                    cv = res_[0][1]
                    for _ in range(nots):
                        cv = ('not', cv)
                    return self.exec_if(s, P, fr, self.assume(cv))
        if k == 'if':
            c_if = self.assume(self.E(s['c'], P, fr))
            if getattr(self, 'unroll_paths', False) and _first_ite(c_if) is not None:
                # the condition selects between alternatives produced by a helper (check() == 1 with check() = c ? 1 : 0):
                # decide it once per alternative
                try:
                    alts = split_ite([], c_if, limit=16)
                except ValueError:
                    alts = None
                if alts and len(alts) > 1:
                    outs = []
                    for j, (cs_, c2) in enumerate(alts):
                        Q = P if j == len(alts) - 1 else P.fork()
                        for c_ in cs_:
                            Q.conds.append(c_)
                            Q.events.append(('cond', c_, s.get('l')))
                        outs += self.exec_if(s, Q, fr, self.assume(c2))
                    return outs
            return self.exec_if(s, P, fr, c_if)
        if k == 'switch':
            return self.exec_switch(s, P, fr)
        if k in ('for', 'while', 'do'):
            return self.exec_loop(s, P, fr)
        if k in ('case', 'default'):
            return self.exec_stmt(s['sub'], P, fr)
        if k == 'try':
            return self.exec_stmt(s['body'], P, fr)
        if k in ('unkstmt', 'goto'):
            self.trace.notes.append('unmodelled statement %s at %s' % (s.get('cls', k), s.get('l')))
            return [P]
        # expression statement
        self.E(s, P, fr)
        if P.exit_hit is not None:
            P.kind = 'exit'
        return [P]

    def exec_if(self, s, P, fr, c):
        if True:
            known = self.truth(c)
            outs = []
            if known is not False:
                A = P.fork() if known is None else P
                if known is None:
                    A.conds.append(c)
                    A.events.append(('cond', c, s.get('l')))
                outs += self.exec_stmt(s['then'], A, fr)
            if known is not True:
                B = P.fork() if known is None else P
                if known is None:
                    B.conds.append(('not', c))
                    B.events.append(('cond', ('not', c), s.get('l')))
                outs += self.exec_stmt(s['else'], B, fr) if s.get('else') else [B]
            return outs

    @staticmethod
    def truth(c):
        if c[0] == 'num':
            return c[1] != 0
        if c[0] == 'addr':
            return True         # the address of an object is not null
        if c[0] in ('or', 'and'):
            a, b = Evaluator.truth(c[1]), Evaluator.truth(c[2])
            if c[0] == 'or':
                return True if (a is True or b is True) else (False if (a is False and b is False) else None)
            return False if (a is False or b is False) else (True if (a is True and b is True) else None)
        if c[0] == 'not':
            a = Evaluator.truth(c[1])
            return None if a is None else (not a)
        if c[0] == 'new':
            return True         # the result of a new-expression is not null
        if c[0] == 'cmp' and c[1] in ('==', '!=') and ((c[2][0] in ('new', 'addr') and c[3] == ('num', Fraction(0))) or (c[3][0] in ('new', 'addr') and c[2] == ('num', Fraction(0)))):
            return c[1] == '!='
        if c[0] == 'cmp':
            def cv(t):
                if t[0] == 'num':
                    return t[1]
                if t[0] == 'neg' and t[1][0] == 'num':
                    return -t[1][1]
                if t[0] == 'call' and t[1] == 'mod' and t[2][0][0] == 'num' and t[2][1][0] == 'num' and t[2][1][1] != 0:
                    return Fraction(int(t[2][0][1]) % int(t[2][1][1]))
                if t[0] == 'add' and all(x[0] == 'num' or (x[0] == 'neg' and x[1][0] == 'num') for x in t[1]):
                    return sum((x[1] if x[0] == 'num' else -x[1][1]) for x in t[1])
                return None
            a, b = cv(c[2]), cv(c[3])
            if a is not None and b is not None:
                return {'<': a < b, '>': a > b, '<=': a <= b, '>=': a >= b, '==': a == b, '!=': a != b}[c[1]]
            return None
        if c[0] == 'cmp' and c[2][0] == 'num' and c[3][0] == 'num':
            a, b = c[2][1], c[3][1]
            return {'<': a < b, '>': a > b, '<=': a <= b, '>=': a >= b, '==': a == b, '!=': a != b}[c[1]]
        return None

    def switch_arms(self, s):
        """[(label value or 'default', start index)] over the flattened body"""
        body = stmts(s['body'])
        flat = []
        labels = []

        def add(st):
            while st is not None and st.get('k') in ('case', 'default'):
                labels.append((('default' if st['k'] == 'default' else st.get('v')), len(flat), st))
                st = st['sub']
            if st is not None:
                flat.append(st)
        for st in body:
            add(st)
        return flat, labels

    def exec_switch(self, s, P, fr):
        c = self.E(s['c'], P, fr)
        flat, labels = self.switch_arms(s)
        self.trace.switch_labels.append(tuple(l[0] for l in labels))
        outs = []
        has_default = any(l[0] == 'default' for l in labels)

        def run_from(idx, Q):
            res = self.exec_block(flat[idx:], [Q], fr)
            for r in res:
                if r.kind == 'break':
                    r.kind = 'fall'
            return res
        if c[0] == 'num' and c[1].denominator == 1:
            v = str(int(c[1]))
            for lab, idx, st in labels:
                if lab == v:
                    return run_from(idx, P)
            for lab, idx, st in labels:
                if lab == 'default':
                    return run_from(idx, P)
            return [P]
        for lab, idx, st in labels:
            Q = P.fork()
            if lab == 'default':
                Q.conds.append(('switch-default', c, tuple(l[0] for l in labels if l[0] != 'default')))
            else:
                Q.conds.append(('cmp', '==', c, num(int(lab)) if lab is not None else ('unk', 'case label')))
            outs += run_from(idx, Q)
        if not has_default:
            Q = P.fork()
            Q.conds.append(('switch-default', c, tuple(l[0] for l in labels)))
            outs.append(Q)
        return outs

    def scan_assigned(self, node, P, fr):
        """locals (ids) and member paths syntactically assigned inside a loop body"""
        from .ir import walk
        loc, mem = {}, set()
        for n in walk(node):
            tgt = None
            if n.get('k') == 'bin' and n['op'] in ('=', '+=', '-=', '*=', '/='):
                tgt = n['a']
            elif n.get('k') == 'un' and n['op'] in ('++', '--'):
                tgt = n['e']
            elif n.get('k') == 'call' and n.get('opcall') and n.get('n') in ('operator++', 'operator--', 'operator=', 'operator+=') and n.get('args'):
                tgt = n['args'][0]
            if tgt is None:
                continue
            t = strip(tgt, casts=True)
            while t.get('k') == 'index' or (t.get('k') == 'call' and t.get('n') == 'operator[]'):
                t = strip(t['base'] if t['k'] == 'index' else t['args'][0], casts=True)
            if t.get('k') == 'local':
                loc[t['id']] = t['n']
            elif t.get('k') == 'member':
                pth = self.mpath(t, P, fr)
                if pth:
                    mem.add(pth)
        return loc, mem

    def try_unroll(self, s, P, fr, limit=256):
        """constant-trip-count loops (condition decidable from propagated constants on every iteration, one path per
        iteration) are unrolled; anything else falls back to the abstract single-iteration summary"""
        if s['k'] == 'do' or s.get('c') is None:
            return None
        if getattr(self, 'unroll_paths', False):
            return self.unroll_multi(s, P, fr, limit)
        Q = P.fork()
        saved_events = len(Q.events)
        n = 0
        while True:
            c = self.E(s['c'], Q, fr)
            tv = self.truth(c)
            if tv is None:
                return None
            if tv is False:
                break
            outs = self.exec_stmt(s['body'], Q, fr)
            if len(outs) != 1:
                return None
            Q = outs[0]
            if Q.kind == 'ret' or Q.kind == 'exit':
                self.adopt_into(P, Q)
                return [P]
            if Q.kind == 'break':
                Q.kind = 'fall'
                break
            Q.kind = 'fall'
            if s['k'] == 'for' and s.get('inc') is not None:
                self.E(s['inc'], Q, fr)
            n += 1
            if n > limit:
                return None
        self.adopt_into(P, Q)
        return [P]

    def unroll_multi(self, s, P, fr, limit=256, max_paths=2048):
        """unrolling with branching bodies: the loop condition must be decidable on every path at every iteration; paths
        that return or exit inside the body leave the loop, the others go round again.  None (-> abstract summary) when the
        condition is not decidable or the bounds are exceeded."""
        live = [P.fork()]
        finished = []
        n = 0
        while live:
            nxt = []
            for Q in live:
                c = self.E(s['c'], Q, fr)
                tv = self.truth(c)
                if tv is None:
                    return None
                if tv is False:
                    finished.append(Q)
                    continue
                for R in self.exec_stmt(s['body'], Q, fr):
                    if R.kind in ('ret', 'exit'):
                        finished.append(R)
                    elif R.kind == 'break':
                        R.kind = 'fall'
                        finished.append(R)
                    else:
                        R.kind = 'fall'
                        if s['k'] == 'for' and s.get('inc') is not None:
                            self.E(s['inc'], R, fr)
                        nxt.append(R)
            live = nxt
            n += 1
            if len(live) > 48:
                # too many distinct continuations: keep exploring a subset.  Every explored path is still a real path (what is
                # reported on it is real); `pruned` tells the caller that absence of findings is not a proof
                live = live[:48]
                self.trace.pruned = True
            if n > limit or len(live) + len(finished) > max_paths:
                return None
        if not finished:
            return None
        self.adopt_into(P, finished[0])
        return [P] + finished[1:]

    @staticmethod
    def adopt_into(P, Q):
        P.locals, P.mem, P.conds, P.events, P.kind, P.ret, P.exit_hit = Q.locals, Q.mem, Q.conds, Q.events, Q.kind, Q.ret, Q.exit_hit

    def sum_idiom(self, s, P, fr):
        """`for (i = 0; i < V.size(); ++i) acc += V[i];` and `for (it = V.begin(); it != V.end(); ++it) acc += *it;`
        (nothing else in the body) give acc + vsum(V), the sum of all elements of V - the same term std::accumulate over
        [begin, end) gives.  Any other bounds or body fall through to the generic summary."""
        from .ast import is_local, full_container_loop
        if s.get('k') != 'for':
            return None
        init = s.get('init')
        if not (init and init.get('k') == 'decl' and len(init['vars']) == 1):
            return None
        lid = init['vars'][0]['id']
        body = [x for x in stmts(s.get('body')) if x.get('k') != 'null']
        while len(body) == 1 and body[0].get('k') == 'block':
            body = [x for x in stmts(body[0]) if x.get('k') != 'null']
        if len(body) != 1:
            return None
        b = strip(body[0])
        if not (b.get('k') == 'bin' and b['op'] == '+=' and strip(b['a'], casts=True).get('k') == 'local'):
            return None
        acc = strip(b['a'], casts=True)
        if acc['id'] == lid:
            return None
        rhs = strip(b['b'], casts=True)
        cont = None
        holder = {}

        def pred(x):
            holder.setdefault('c', x)
            return x is not None
        if full_container_loop(s, pred) == lid and holder.get('c') is not None:
            # acc += *it
            if rhs.get('k') == 'call' and rhs.get('n') == 'operator*' and len(rhs['args']) == 1 and is_local(rhs['args'][0], lid, casts=True):
                cont = holder['c']
                c2 = strip(strip(s['c'], casts=True)['args'][1], casts=True)
                while c2.get('k') == 'construct' and len(c2['args']) == 1:
                    c2 = strip(c2['args'][0], casts=True)
                if self.E(c2.get('obj'), P, fr) != self.E(cont, P, fr):
                    return None
        else:
            start = P.locals.get((fr['id'], lid))
            c = strip(s.get('c'), casts=True)
            inc = strip(s.get('inc'), casts=True)
            if not (start == num(0) and c.get('k') == 'bin' and c['op'] in ('<', '!=') and is_local(c['a'], lid, casts=True)):
                return None
            sz = strip(c['b'], casts=True)
            while sz.get('k') == 'construct' and len(sz['args']) == 1:
                sz = strip(sz['args'][0], casts=True)
            if not (sz.get('k') == 'call' and sz.get('n') == 'size' and sz.get('obj') is not None):
                return None
            if not ((inc.get('k') == 'un' and inc['op'] == '++' and is_local(inc['e'], lid, casts=True)) or
                    (inc.get('k') == 'bin' and inc['op'] == '+=' and is_local(inc['a'], lid, casts=True) and self.E(inc['b'], P, fr) == num(1))):
                return None
            if rhs.get('k') == 'call' and rhs.get('n') in ('operator[]', 'at'):
                base = rhs['args'][0] if rhs.get('opcall') else rhs.get('obj')
                ix = rhs['args'][1] if rhs.get('opcall') else (rhs['args'][0] if rhs.get('args') else None)
                if base is not None and ix is not None and is_local(ix, lid, casts=True) and self.E(base, P, fr) == self.E(sz['obj'], P, fr):
                    cont = base
        if cont is None:
            return None
        cur = P.locals.get((fr['id'], acc['id']))
        if cur is None:
            return None
        vt = self.E(cont, P, fr)
        P.locals[(fr['id'], acc['id'])] = ('add', (cur, ('call', 'vsum', (vt,))))
        P.locals[(fr['id'], lid)] = ('unk', 'loop variable after the loop')
        P.events.append(('loop', (None, ()), s.get('l')))
        return [P]

    def exec_loop(self, s, P, fr):
        """one abstract iteration.  Variables assigned in the body carry the marker symbol
        '@loop:<name>' on entry to the body and become the opaque term loop(<values after one
        iteration>) afterwards: dependencies are preserved, the value is not."""
        if s['k'] == 'for' and s.get('init') is not None:
            res = self.exec_stmt(s['init'], P, fr)
            P = res[0]
        un = self.try_unroll(s, P, fr)
        if un is not None:
            return un
        sm = self.sum_idiom(s, P, fr)
        if sm is not None:
            return sm
        loc, mem = self.scan_assigned({'b': s.get('body'), 'i': s.get('inc')}, P, fr)
        for lid, name in loc.items():
            if (fr['id'], lid) in P.locals:
                P.locals[(fr['id'], lid)] = ('call', 'loopvar', (P.locals[(fr['id'], lid)], ('sym', '@loop:' + name)))
        for pth in mem:
            if pth in P.mem:
                P.mem[pth] = ('call', 'loopvar', (P.mem[pth], ('sym', '@loop:' + pth)))
        before_l = dict(P.locals)
        before_m = dict(P.mem)
        if s.get('c') is not None and s['k'] != 'do':
            self.E(s['c'], P, fr)
        body_paths = self.exec_stmt(s['body'], P.fork(), fr)
        rets = [p for p in body_paths if p.kind in ('ret', 'exit')]
        for p in body_paths:
            if s['k'] == 'for' and s.get('inc') is not None and p.kind in ('fall', 'cont'):
                self.E(s['inc'], p, fr)
        changed_l, changed_m = {}, {}
        for p in body_paths:
            for kx, v in p.locals.items():
                if before_l.get(kx) != v and kx in before_l:
                    changed_l.setdefault(kx, []).append(v)
            for kx, v in p.mem.items():
                if before_m.get(kx) != v and (kx in before_m or getattr(self, 'loop_new_members', False)):
                    changed_m.setdefault(kx, []).append(v)
        npre = len(P.events)
        cond_t = self.E(s['c'], P.fork(), fr) if s.get('c') is not None else None
        def deltas(bp):
            # what one iteration along this body path leaves in the variables it assigns (pseudo-events closing the path)
            d_ = []
            for kx, v in bp.locals.items():
                if kx in before_l and before_l.get(kx) != v and kx[0] == fr['id'] and kx[1] in loc:
                    d_.append(('delta', (loc[kx[1]], v), s.get('l')))
            for kx, v in bp.mem.items():
                if kx in before_m and before_m.get(kx) != v:
                    d_.append(('delta', (kx, v), s.get('l')))
            return tuple(d_)
        P.events.append(('loop', (cond_t, tuple((bp.kind, tuple(bp.conds[len(P.conds):]), tuple(bp.events[npre:]) + deltas(bp)) for bp in body_paths)), s.get('l')))
        fill = self.fill_idiom(s, fr, before_l, body_paths, changed_l, changed_m, cond_t, len(P.conds), npre)
        for kx, vs in changed_l.items():
            P.locals[kx] = fill[kx] if kx in fill else ('call', 'loop', tuple(vs))
        for kx, vs in changed_m.items():
            P.mem[kx] = ('call', 'loop', tuple(vs))
        outs = [P]
        for r in rets:
            r.conds.append(('sym', '@loop:cond'))
            outs.append(r)
        return outs

    def fill_idiom(self, s, fr, before_l, body_paths, changed_l, changed_m, cond_t, nconds, npre):
        """for (i = 0; i < N; ++i) V[i] = e(i);  with nothing else assigned, no early exit and e not reading V: afterwards
        V is vfill(V before, N, e(@fill)) - elements 0..N-1 are e(i), the size is unchanged.  Returns {local key: value}."""
        if s['k'] != 'for' or changed_m or cond_t is None or any(p.kind != 'fall' for p in body_paths):
            return {}
        if not (cond_t[0] == 'cmp' and cond_t[1] == '<' and cond_t[2][0] == 'call' and cond_t[2][1] == 'loopvar' and cond_t[2][2][0] == num(0)):
            return {}
        ctr, N = cond_t[2], cond_t[3]
        if any(x[0] == 'sym' and x[1].startswith('@loop:') for x in subterms(N)):
            return {}
        keys = list(changed_l)
        ck = [kx for kx in keys if before_l.get(kx) == ctr]
        vk = [kx for kx in keys if kx not in ck]
        if len(ck) != 1 or len(vk) != 1:
            return {}
        if any(p.locals.get(ck[0]) != ('add', (ctr, num(1))) for p in body_paths):
            return {}
        vin = before_l.get(vk[0])
        if not (vin is not None and vin[0] == 'call' and vin[1] == 'loopvar'):
            return {}
        lam = None
        for p in reversed(body_paths):
            if any(e_[0] not in ('cond', 'branch') for e_ in p.events[npre:]):
                return {}
            v = p.locals.get(vk[0])
            if not (v is not None and v[0] == 'call' and v[1] == 'elemstore' and v[2][0] == vin and v[2][1] == ctr):
                return {}
            ev = v[2][2]
            if any(x == vin for x in subterms(ev)):
                return {}
            cs = p.conds[nconds:]
            if lam is None:
                lam = ev
            else:
                c_ = cs[0] if len(cs) == 1 else (('and', tuple(cs)) if cs else None)
                if c_ is None:
                    return {}
                lam = ('ite', c_, ev, lam)
        if lam is None:
            return {}
        lam = subst_term(lam, ctr, ('sym', '@fill'))
        return {vk[0]: ('call', 'vfill', (vin[2][0], N, lam))}

    # ------------------------------------------------------------ entry
    def run(self, fn, arg_names=None, bind=None):
        """evaluate entry function fn.  Returns list of (conds, ret term, Path)"""
        args = []
        for i, p in enumerate(fn.params):
            nm = (arg_names[i] if arg_names else p['n']) or ('arg%d' % i)
            if bind and i in bind:
                args.append(bind[i])
            else:
                args.append(('sym', nm))
        fr = {'id': self.new_frame_id(), 'args': args, 'this': '', 'depth': 0, 'fn': fn}
        P0 = Path()
        if self.dyn_class and not fn.get('ctor') and not getattr(self, 'no_ctor_constants', False) and self.prog is not None:
            # integer / string members the constructor chain fixes and nothing else writes (dimension, mmsname): known on entry
            P0.mem.update(cat.ctor_constants(self.prog, self.dyn_class))
        P0.mem.update(getattr(self, 'init_mem', None) or {})     # members whose value on entry is known (e.g. the slot array after construction)
        paths0 = [P0]
        if fn.get('ctor'):
            paths0 = self.ctor_inits(fn, P0, fr)
        outs = []
        for Pi in paths0:
            outs.extend(self.exec_block(stmts(fn.body), [Pi], fr, top=True) if fn.body is not None else [Pi])
        return outs

    def ctor_inits(self, fn, P, fr):
        """the initialiser list of an entry constructor: constructors of intermediate base classes (those that take arguments or
        are not the root manufactured_solution) run on the same object, member initialisers are stores"""
        paths = [P]
        root = cat.BASE % (self.scalar or 'double')
        for i in fn.inits or []:
            e = i.get('e')
            if i.get('base') and i['base'] != root and isinstance(e, dict) and e.get('k') == 'construct':
                cands = [f for f in self.prog.methods_of(i['base']) if f.get('ctor') and f.sig == e.get('ctor') and len(f.params) == len(e.get('args', []))]
                if len(cands) != 1 or cands[0].body is None:
                    continue
                nxt = []
                for Pi in paths:
                    args = [self.E(a, Pi, fr) for a in e.get('args', [])]
                    sub = {'id': self.new_frame_id(), 'args': args, 'this': fr['this'], 'depth': fr['depth'] + 1, 'fn': cands[0]}
                    self.trace.inlined.add(cands[0].q)
                    for Pj in self.ctor_inits(cands[0], Pi, sub):
                        for o in self.exec_block(stmts(cands[0].body), [Pj], sub, top=True):
                            if o.kind != 'exit':
                                o.kind, o.ret = 'fall', None
                                nxt.append(o)
                paths = nxt or paths
        return paths


def const_object_type(ty):
    """is an object of (clang-spelled) type ty itself immutable: `const T`, `T *const`, arrays of those - not `const T *`"""
    import re
    ty = re.sub(r'(\[[^\]]*\])+$', '', str(ty).strip()).strip()
    if re.search(r'\(\*\s*const\s*(\[[^\]]*\])*\)', ty):
        return True         # (array of) const pointer(s) to function: T (*const[N])(args)
    if ty.endswith('const'):
        return True
    if '*' in ty or '&' in ty:
        return False
    return ty.startswith('const ')


def _first_ite(t):
    """path (list of child indices) to the first ite sub-term in arithmetic position, or None"""
    if not isinstance(t, tuple) or not t:
        return None
    if t[0] == 'ite':
        return []
    if t[0] in ('add', 'mul'):
        for i, x in enumerate(t[1]):
            r = _first_ite(x)
            if r is not None:
                return [1, i] + r
    elif t[0] in ('neg',):
        r = _first_ite(t[1])
        if r is not None:
            return [1] + r
    elif t[0] == 'div':
        for j in (1, 2):
            r = _first_ite(t[j])
            if r is not None:
                return [j] + r
    elif t[0] == 'call':
        for i, x in enumerate(t[2]):
            r = _first_ite(x)
            if r is not None:
                return [2, i] + r
    elif t[0] == 'cmp':
        for j in (2, 3):
            r = _first_ite(t[j])
            if r is not None:
                return [j] + r
    elif t[0] == 'not':
        r = _first_ite(t[1])
        if r is not None:
            return [1] + r
    elif t[0] in ('and', 'or'):
        for j in (1, 2):
            r = _first_ite(t[j])
            if r is not None:
                return [j] + r
    return None


def _replace_at(t, path, new):
    if not path:
        return new
    i = path[0]
    lst = list(t)
    lst[i] = _replace_at(t[i], path[1:], new)
    return tuple(lst)


def _get_at(t, path):
    for i in path:
        t = t[i]
    return t


def split_ite(conds, term, limit=256):
    """a value that selects between alternatives (ternary operator, or an inlined callee with several return
    statements) is the same thing as branching: expand into [(conds, ite-free term)].  Conditions of nested selections are
    appended in evaluation order; contradictory combinations (c and not c) are dropped."""
    work = [(list(conds), term)]
    done = []
    while work:
        cs, t = work.pop(0)
        pth = _first_ite(t)
        if pth is None:
            done.append((cs, t))
            continue
        it = _get_at(t, pth)
        c = it[1]
        cl = list(c[1]) if c[0] == 'andlist' else [c]
        def negate(x):
            return x[1] if x[0] == 'not' else ('not', x)
        rem = [x for x in cl if x not in cs]
        if not rem:
            alt = None              # the selection's condition already holds on this path: no else branch
        elif len(rem) == 1:
            alt = [negate(rem[0])]
        else:
            alt = [('not', ('andlist', tuple(rem)))]
        for branch, extra in ((it[2], cl), (it[3], alt)):
            if extra is None:
                continue
            ncs = cs + [x for x in extra if x not in cs]
            if any((x[0] == 'not' and x[1] in ncs) or (('not', x) in ncs) for x in ncs):
                continue
            work.append((ncs, _replace_at(t, pth, branch)))
        if len(work) + len(done) > limit:
            raise ValueError('too many alternatives')
    return done


def subterms(t):
    stack = [t]
    while stack:
        x = stack.pop()
        if isinstance(x, dict):
            stack.extend(x.values())       # fields of a struct value
            continue
        if not isinstance(x, tuple):
            continue
        yield x
        for c in x[1:]:
            if isinstance(c, dict):
                stack.extend(c.values())
                continue
            if isinstance(c, tuple):
                if c and isinstance(c[0], str):
                    stack.append(c)
                else:
                    stack.extend(c)


def syms(t):
    return set(x[1] for x in subterms(t) if x[0] == 'sym')


def has_unk(t):
    return [x[1] for x in subterms(t) if x[0] == 'unk']


def fmt(t, depth=0):
    if depth > 60:
        return '...'
    k = t[0]
    d = depth + 1
    if k == 'num':
        return str(t[1])
    if k == 'sym':
        return t[1]
    if k == 'add':
        return '(' + ' + '.join(fmt(x, d) for x in t[1]) + ')'
    if k == 'mul':
        return '*'.join(fmt(x, d) for x in t[1])
    if k == 'neg':
        return '-' + fmt(t[1], d)
    if k == 'div':
        return '(%s)/(%s)' % (fmt(t[1], d), fmt(t[2], d))
    if k == 'call':
        return '%s(%s)' % (t[1], ', '.join(fmt(x, d) for x in t[2]))
    if k == 'apply':
        return '%s(%s)' % (fmt(t[1], d), ', '.join(fmt(x, d) for x in t[2]))
    if k == 'ite':
        return 'ite(%s, %s, %s)' % (fmt(t[1], d), fmt(t[2], d), fmt(t[3], d))
    if k == 'cmp':
        return '%s %s %s' % (fmt(t[2], d), t[1], fmt(t[3], d))
    if k == 'unk':
        return '<?%s>' % t[1]
    if k == 'mcall':
        return '%s.%s(%s)' % (fmt(t[1], d), t[2], ', '.join(fmt(x, d) for x in t[3]))
    if k == 'field':
        return '%s.%s' % (fmt(t[1], d), t[2])
    if k == 'elem':
        return '%s[%s]' % (fmt(t[1], d), fmt(t[2], d))
    if k == 'size':
        return 'size(%s)' % fmt(t[1], d)
    if k == 'addr':
        return '&%s' % fmt(t[1], d)
    if k == 'deref':
        return '*%s' % fmt(t[1], d)
    if k == 'str':
        return '"%s"' % t[1]
    if k == 'not':
        return '!(%s)' % fmt(t[1], d)
    return '<%s>' % k
