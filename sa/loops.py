"""Whole-container traversals read off the evaluator's loop summaries.

A loop the evaluator cannot unroll is summarised as one event
   ('loop', (condition term, ((kind, conditions, events + deltas), ...)), loc)
with one entry per path through the body.  `deltas` are pseudo-events
('delta', (variable, value after the iteration)) closing each body path.  A loop
is a traversal of the map member M when

  * its condition is  it != M.end()  with  it = loopvar(M.begin(), ...), i.e. the iterator starts at begin();
  * every body path that goes round again steps the iterator exactly once, by ++;
  * no body path leaves the loop early other than through a fatal exit.

This is independent of the loop statement used (for / while), of a hoisted end(),
of continue-style guards and of local references standing for *it.
"""
from . import terms


def _is_begin(t, mapname):
    if t[0] == 'call' and t[1] == 'loopvar':
        t = t[2][0]
    return t[0] == 'mcall' and t[1] == ('sym', mapname) and t[2] in ('begin', 'cbegin') and not t[3]


def _is_end(t, mapname):
    return t[0] == 'mcall' and t[1] == ('sym', mapname) and t[2] in ('end', 'cend') and not t[3]


def traversals(events, mapname):
    """[(full?, why, loop event, iterator name)] for the loops in `events` whose condition compares an iterator of mapname"""
    out = []
    for e in events:
        if e[0] != 'loop' or e[1][0] is None:
            continue
        c = e[1][0]
        if not (c[0] == 'call' and c[1] in ('op:operator!=', 'op:operator==', 'op:operator<') and len(c[2]) == 2):
            continue
        a, b = c[2]
        if not ((_is_begin(a, mapname) and a[0] == 'call') or _is_end(b, mapname) or _is_end(a, mapname)):
            continue
        why = None
        if not (c[1] == 'op:operator!=' and a[0] == 'call' and a[1] == 'loopvar' and _is_begin(a, mapname) and _is_end(b, mapname)):
            why = 'the loop condition is `%s`, not it != %s.end() with it starting at %s.begin()' % (terms.fmt(c)[:80], mapname, mapname)
        itname = a[2][1][1][len('@loop:'):] if a[0] == 'call' and a[1] == 'loopvar' and a[2][1][0] == 'sym' else None
        for kind, conds, evs in e[1][1]:
            if kind == 'exit':
                continue
            if kind in ('ret', 'break'):
                why = why or 'a path leaves the loop early (%s)' % kind
                continue
            steps = [x for x in evs if x[0] == 'delta' and x[1][0] == itname]
            if len(steps) != 1 or not (steps[0][1][1][0] == 'call' and steps[0][1][1][1] == 'op:operator++' and steps[0][1][1][2][0] == a):
                why = why or 'the iterator is not advanced by exactly one ++ on every path through the body'
        out.append((why is None, why, e, itname))
    return out


def body_paths(loop_event):
    """[(kind, conds, real events, {variable: value after the iteration})]"""
    res = []
    for kind, conds, evs in loop_event[1][1]:
        res.append((kind, list(conds), [x for x in evs if x[0] != 'delta'], {x[1][0]: x[1][1] for x in evs if x[0] == 'delta'}))
    return res
