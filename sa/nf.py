"""Normal form of terms: signed monomials over atomic factors (DESIGN 1.3 c).

poly  = {mono: Fraction}          mono = tuple(sorted((atom, int exponent)))
atom  = ('sym', name) | ('call', name, (canon(poly), ...)) | ('sum', canon(poly))
        | ('apply', canon f, (canon args)) | ('opaque', repr)

Only re-association, commutation, collection of syntactically equal monomials
and integer powers are applied.  Products are never distributed over sums
(a sum inside a product becomes an opaque ('sum', ...) atom) and no identity
(trigonometric or otherwise) is used.
"""
from fractions import Fraction

PI_ALIASES = {'pi'}


def canon(poly):
    return tuple(sorted(((m, c) for m, c in poly.items()), key=lambda mc: repr(mc[0])))


def uncanon(c):
    return dict(c)


def const_poly(v):
    v = Fraction(v)
    return {(): v} if v != 0 else {}


def atom_poly(a):
    return {((a, 1),): Fraction(1)}


def add(p, q):
    r = dict(p)
    for m, c in q.items():
        v = r.get(m, 0) + c
        if v == 0:
            r.pop(m, None)
        else:
            r[m] = v
    return r


def neg(p):
    return {m: -c for m, c in p.items()}


def mono_mul(m1, m2):
    d = {}
    for a, e in m1:
        d[a] = d.get(a, 0) + e
    for a, e in m2:
        d[a] = d.get(a, 0) + e
    return tuple(sorted(((a, e) for a, e in d.items() if e != 0), key=lambda ae: repr(ae[0])))


def as_single(p):
    """(coeff, mono) if p is one monomial (or zero), else None"""
    if len(p) == 0:
        return Fraction(0), ()
    if len(p) == 1:
        (m, c), = p.items()
        return c, m
    return None


def to_factor(p):
    """poly used as a factor of a product: (coeff, mono)"""
    s = as_single(p)
    if s is not None:
        return s
    # pull out a common sign/coefficient?  No: keep opaque, but normalise overall sign so that
    # (a-b) and -(b-a) are recognised: make the leading monomial's coefficient positive
    c0 = canon(p)
    lead = c0[0][1]
    if lead < 0:
        return Fraction(-1), ((('sum', canon(neg(p))), 1),)
    return Fraction(1), ((('sum', c0), 1),)


def mul(p, q):
    c1, m1 = to_factor(p)
    c2, m2 = to_factor(q)
    c = c1 * c2
    if c == 0:
        return {}
    return {mono_mul(m1, m2): c}


def power(p, n):
    """integer power of a poly (as factor)"""
    c, m = to_factor(p)
    if n == 0:
        return const_poly(1)
    if c == 0:
        return {} if n > 0 else {((('opaque', 'division by zero'), 1),): Fraction(1)}
    return {tuple((a, e * n) for a, e in m): c ** n}


def nf(t):
    k = t[0]
    if k == 'num':
        return const_poly(t[1])
    if k == 'sym':
        return atom_poly(('sym', t[1]))
    if k == 'add':
        r = {}
        for x in t[1]:
            r = add(r, nf(x))
        return r
    if k == 'neg':
        return neg(nf(t[1]))
    if k == 'mul':
        r = const_poly(1)
        for x in t[1]:
            r = mul(r, nf(x))
        return r
    if k == 'div':
        return mul(nf(t[1]), power(nf(t[2]), -1))
    if k == 'call':
        name, args = t[1], t[2]
        if name == 'pow' and len(args) == 2:
            e = nf(args[1])
            s = as_single(e)
            if s is not None and s[1] == () and s[0].denominator == 1:
                return power(nf(args[0]), int(s[0]))
        return atom_poly(('call', name, tuple(canon(nf(a)) for a in args)))
    if k == 'apply':
        return atom_poly(('apply', canon(nf(t[1])), tuple(canon(nf(a)) for a in t[2])))
    if k == 'ite':
        return atom_poly(('ite', repr(t[1]), canon(nf(t[2])), canon(nf(t[3]))))
    if k == 'elem':
        return atom_poly(('elem', canon(nf(t[1])), canon(nf(t[2]))))
    if k == 'size':
        return atom_poly(('size', canon(nf(t[1]))))
    return atom_poly(('opaque', repr(t)))


# --------------------------------------------------------------------------
def atoms_of(poly, deep=True):
    """every atom occurring in a poly (recursing into call args and sums when deep)"""
    out = set()
    stack = [poly if isinstance(poly, dict) else uncanon(poly)]
    while stack:
        p = stack.pop()
        for m in p:
            for a, e in m:
                out.add(a)
                if deep:
                    if a[0] == 'call':
                        stack.extend(uncanon(x) for x in a[2])
                    elif a[0] == 'sum':
                        stack.append(uncanon(a[1]))
                    elif a[0] == 'apply':
                        stack.append(uncanon(a[1]))
                        stack.extend(uncanon(x) for x in a[2])
                    elif a[0] == 'ite':
                        stack.append(uncanon(a[2]))
                        stack.append(uncanon(a[3]))
                    elif a[0] == 'elem':
                        stack.append(uncanon(a[1]))
                        stack.append(uncanon(a[2]))
    return out


def syms_of(poly):
    return set(a[1] for a in atoms_of(poly) if a[0] == 'sym')


def mono_syms(m):
    return syms_of({m: Fraction(1)})


def has_opaque(poly):
    return any(a[0] in ('opaque', 'ite') for a in atoms_of(poly))


def diff(p, q):
    """symmetric difference: monomials (with coefficient) of p-q"""
    return add(p, neg(q))


def fmt_atom(a):
    k = a[0]
    if k == 'sym':
        return a[1]
    if k == 'call':
        return '%s(%s)' % (a[1], ', '.join(fmt(uncanon(x)) for x in a[2]))
    if k == 'sum':
        return '(' + fmt(uncanon(a[1])) + ')'
    if k == 'apply':
        return '%s(%s)' % (fmt(uncanon(a[1])), ', '.join(fmt(uncanon(x)) for x in a[2]))
    if k == 'elem':
        return '%s[%s]' % (fmt(uncanon(a[1])), fmt(uncanon(a[2])))
    if k == 'size':
        return 'size(%s)' % fmt(uncanon(a[1]))
    return '<%s>' % k


def fmt_mono(m, c):
    parts = []
    if c != 1 or not m:
        parts.append(str(c) if c != -1 or not m else '-')
    for a, e in m:
        s = fmt_atom(a)
        parts.append(s if e == 1 else '%s^%d' % (s, e))
    s = '*'.join(p for p in parts if p != '-')
    return ('-' + s) if parts and parts[0] == '-' else s


def fmt(poly, limit=6):
    items = sorted(poly.items(), key=lambda mc: repr(mc[0]))
    s = ' + '.join(fmt_mono(m, c) for m, c in items[:limit])
    if len(items) > limit:
        s += ' + ... (%d monomials)' % len(items)
    return s or '0'


# --------------------------------------------------------------------------
# table-driven derivative of the two field shapes of C07.G5 / C03
# --------------------------------------------------------------------------
class NotInShape(Exception):
    pass


def linear_coeff(poly, x):
    """d(poly)/dx for poly linear in sym x with x occurring only as a plain factor; raises NotInShape"""
    r = {}
    for m, c in poly.items():
        if x not in mono_syms(m):
            continue
        rest = []
        found = False
        for a, e in m:
            if a == ('sym', x):
                if e != 1:
                    raise NotInShape('nonlinear in ' + x)
                found = True
            else:
                if x in syms_of({((a, 1),): Fraction(1)}):
                    raise NotInShape(x + ' nested in ' + fmt_atom(a))
                rest.append((a, e))
        if not found:
            raise NotInShape('x not a plain factor')
        r = add(r, {tuple(rest): c})
    return r


TRIG_D = {'sin': ('cos', 1), 'cos': ('sin', -1)}


def d_atom(a, x):
    """derivative of atom a wrt x as a poly; shapes: sym, sin/cos of a phase linear in x"""
    if a == ('sym', x):
        return const_poly(1)
    if x not in syms_of({((a, 1),): Fraction(1)}):
        return {}
    if a[0] == 'call' and a[1] in TRIG_D and len(a[2]) == 1:
        ph = uncanon(a[2][0])
        dph = linear_coeff(ph, x)
        other, sign = TRIG_D[a[1]]
        outer = {((('call', other, a[2]), 1),): Fraction(sign)}
        return mul(outer, dph)
    if a[0] == 'sum':
        return derivative(uncanon(a[1]), x)
    raise NotInShape('atom %s depends on %s' % (fmt_atom(a), x))


def derivative(poly, x):
    """d(poly)/dx by the product rule over monomials whose x-dependent atoms are within the table"""
    r = {}
    for m, c in poly.items():
        for i, (a, e) in enumerate(m):
            da = d_atom(a, x)
            if not da:
                continue
            rest = list(m[:i]) + list(m[i + 1:])
            if e != 1:
                rest.append((a, e - 1))
                coef = c * e
            else:
                coef = c
            term = {tuple(sorted(rest, key=lambda ae: repr(ae[0]))): coef}
            # merge duplicates in rest (a^(e-1) may coincide with nothing else: fine)
            r = add(r, mul(term, da))
    return r


def _mul_sum(term, da):
    """term (single monomial) times a multi-monomial derivative: distribute (needed because a
    phase c + b*x + d*x... never occurs; kept for completeness)"""
    r = {}
    (m, c), = term.items()
    for m2, c2 in da.items():
        r = add(r, {mono_mul(m, m2): c * c2})
    return r
