"""IR driver and loader.

Runs the libTooling extractor (build/masa-ir) over every translation unit that
/repo/src/Makefile.am lists in cc_sources, with the real build's flags, and
loads the resulting JSON.  The IR is keyed by a hash of every input so that
several checks run back to back share one extraction, but a changed working
tree is always re-extracted (the hash covers file contents, not mtimes).

Exit code convention (see DESIGN 1.5): AnalysisBroken -> exit 2.
"""
import hashlib
import json
import os
import re
import shutil
import subprocess
import sys
import tempfile
import time
from concurrent.futures import ThreadPoolExecutor

VERIF = os.path.dirname(os.path.dirname(os.path.abspath(__file__)))
REPO = os.environ.get('MASA_REPO', '/repo')
EXTRACTOR = os.path.join(VERIF, 'build', 'masa-ir')
CACHE = os.path.join(VERIF, 'build', 'ircache')


class AnalysisBroken(Exception):
    pass


def read(path):
    with open(path, 'r', errors='replace') as f:
        return f.read()


def cc_sources(repo=None):
    """cc_sources as listed by src/Makefile.am (continuation lines joined)."""
    repo = repo or REPO
    txt = read(os.path.join(repo, 'src', 'Makefile.am'))
    txt = re.sub(r'\\\n', ' ', txt)
    out = []
    for m in re.finditer(r'^\s*cc_sources\s*(\+?=)\s*(.*)$', txt, re.M):
        if m.group(1) == '=':
            out = []
        out += m.group(2).split()
    if not out:
        raise AnalysisBroken('no cc_sources in src/Makefile.am')
    seen = []
    for s in out:
        if s not in seen:
            seen.append(s)
    return seen


def build_flags(repo=None, extra_defs=()):
    """Flags of the real build: DEFS / CPPFLAGS of src/Makefile when configured,
    else the configure defaults."""
    repo = repo or REPO
    defs = ['-DHAVE_CONFIG_H']
    mk = os.path.join(repo, 'src', 'Makefile')
    if os.path.exists(mk):
        t = read(mk)
        m = re.search(r'^DEFS\s*=\s*(.*)$', t, re.M)
        if m and m.group(1).strip():
            defs = m.group(1).split()
        m = re.search(r'^CPPFLAGS\s*=\s*(.*)$', t, re.M)
        if m:
            defs += [x for x in m.group(1).split() if x.startswith(('-D', '-U'))]
    return ['-std=gnu++17', '-UNDEBUG', '-Wno-everything'] + defs + list(extra_defs)


def gen_masa_h(repo, incdir):
    """masa.h is generated from masa.h.in by config.status; regenerate it for the
    analysis so that an edit of masa.h.in is seen without re-running configure.
    The @VAR@ placeholders only occur in version macros."""
    src = read(os.path.join(repo, 'src', 'masa.h.in'))
    src = re.sub(r'@[A-Za-z_]+@', '0', src)
    os.makedirs(incdir, exist_ok=True)
    with open(os.path.join(incdir, 'masa.h'), 'w') as f:
        f.write(src)


def _tree_hash(repo, flags):
    h = hashlib.sha256()
    h.update(' '.join(flags).encode())
    try:
        st = os.stat(EXTRACTOR)
        h.update(('%d:%d' % (st.st_size, int(st.st_mtime))).encode())
    except OSError:
        raise AnalysisBroken('extractor not built: run MANIFEST.setup_cmd (make -C /verif)')
    names = []
    srcdir = os.path.join(repo, 'src')
    for fn in sorted(os.listdir(srcdir)):
        if fn.endswith(('.cpp', '.h', '.hpp', '.in', '.am')) and fn != 'masa.h':
            names.append(os.path.join(srcdir, fn))
    names.append(os.path.join(repo, 'config.h'))
    for p in names:
        if os.path.exists(p):
            # keyed by content and file name only (not by where the tree lives): a scratch copy with the same sources
            # shares the extraction
            h.update(os.path.relpath(p, repo).encode())
            with open(p, 'rb') as f:
                h.update(f.read())
    return h.hexdigest()[:24]


def extract(repo=None, extra_defs=(), jobs=16):
    """Returns (dir with one <tu>.json per TU, list of TU basenames, incdir)."""
    repo = repo or REPO
    flags = build_flags(repo, extra_defs)
    key = _tree_hash(repo, flags)
    out = os.path.join(CACHE, key)
    srcs = cc_sources(repo)
    for s in srcs:
        if not os.path.exists(os.path.join(repo, 'src', s)):
            raise AnalysisBroken('source listed in cc_sources is missing: src/' + s)
    if os.path.isdir(out) and os.path.exists(os.path.join(out, 'OK')):
        try:
            os.utime(out, None)
        except OSError:
            pass
        return out, srcs
    os.makedirs(CACHE, exist_ok=True)
    tmp = tempfile.mkdtemp(prefix='ir-', dir=CACHE)
    inc = os.path.join(tmp, 'inc')
    gen_masa_h(repo, inc)
    if not os.path.exists(os.path.join(repo, 'config.h')):
        raise AnalysisBroken('config.h missing: /repo is not configured')
    incs = ['-I' + inc, '-I' + repo, '-I' + os.path.join(repo, 'src')]

    def run(s):
        cmd = [EXTRACTOR, '--out=' + os.path.join(tmp, s + '.json'),
               '--root=' + os.path.join(repo, 'src') + ',' + inc,
               os.path.join(repo, 'src', s), '--'] + flags + incs
        p = subprocess.run(cmd, stdout=subprocess.PIPE, stderr=subprocess.PIPE, text=True)
        return s, p.returncode, p.stderr

    with ThreadPoolExecutor(max_workers=jobs) as ex:
        res = list(ex.map(run, srcs))
    bad = [(s, rc, err) for s, rc, err in res if rc != 0 or not os.path.exists(os.path.join(tmp, s + '.json'))]
    if bad:
        msg = '; '.join('%s rc=%d %s' % (s, rc, err.strip().splitlines()[-1] if err.strip() else '') for s, rc, err in bad)
        shutil.rmtree(tmp, ignore_errors=True)
        raise AnalysisBroken('IR extraction failed: ' + msg)
    with open(os.path.join(tmp, 'ROOT'), 'w') as f:
        f.write(repo)
    with open(os.path.join(tmp, 'OK'), 'w') as f:
        f.write(' '.join(flags))
    try:
        os.rename(tmp, out)
    except OSError:
        shutil.rmtree(tmp, ignore_errors=True)  # lost a race; the other copy is identical
    _prune_cache(keep=out)
    return out, srcs


def _prune_cache(keep, max_age_s=6 * 3600, maxn=200):
    """drop cache entries that have not been touched for hours (never anything recent: other checks or
    self-tests may be reading their own entries concurrently)"""
    try:
        now = time.time()
        ds = [os.path.join(CACHE, d) for d in os.listdir(CACHE)]
        ds = [d for d in ds if os.path.isdir(d) and d != keep]
        ds.sort(key=lambda d: os.stat(d).st_mtime)
        for i, d in enumerate(ds):
            if now - os.stat(d).st_mtime > max_age_s or len(ds) - i > maxn:
                shutil.rmtree(d, ignore_errors=True)
    except OSError:
        pass


# --------------------------------------------------------------------------
# loaded program
# --------------------------------------------------------------------------

def walk(n):
    """pre-order over every dict node of an IR tree"""
    stack = [n]
    while stack:
        x = stack.pop()
        if isinstance(x, dict):
            yield x
            for v in reversed(list(x.values())):
                if isinstance(v, (dict, list)):
                    stack.append(v)
        elif isinstance(x, list):
            for v in reversed(x):
                if isinstance(v, (dict, list)):
                    stack.append(v)


def extraction_root(irdir, repo):
    """the tree the cached IR was extracted from (a scratch copy with identical sources shares the cache entry): file names
    recorded in the IR are relative to it"""
    try:
        with open(os.path.join(irdir, 'ROOT')) as f:
            r = f.read().strip()
            return r or repo
    except OSError:
        return repo


class TU:
    def __init__(self, name, data, repo, incdir_marker):
        self.name = name
        self.types = data['types']
        self.files = []
        for f in data['files']:
            f = os.path.normpath(f)
            if f.startswith(repo + os.sep):
                f = f[len(repo) + 1:]
            elif '/inc/masa.h' in f and 'ircache' in f:
                f = 'src/masa.h.in'
            self.files.append(f)

    def loc(self, l):
        if not l or l == '?':
            return '?'
        p = l.split(':')
        try:
            return '%s:%s:%s' % (self.files[int(p[0])], p[1], p[2])
        except (ValueError, IndexError):
            return l

    def resolve(self, node):
        """rewrite type ids and locations in place (idempotent via marker)"""
        for n in walk(node):
            t = n.get('t')
            if isinstance(t, int):
                n['t'] = self.types[t]
            f = n.get('from')
            if isinstance(f, int):
                n['from'] = self.types[f]
            l = n.get('l')
            if isinstance(l, str) and l and l[0].isdigit():
                if l.endswith(':m'):
                    n['macro'] = 1
                    l = l[:-2]
                n['l'] = self.loc(l)


class Fn:
    __slots__ = ('d', 'tu', '_resolved')

    def __init__(self, d, tu):
        self.d = d
        self.tu = tu
        self._resolved = False

    def __getattr__(self, k):
        try:
            return self.d[k]
        except KeyError:
            raise AttributeError(k)

    def get(self, k, default=None):
        return self.d.get(k, default)

    @property
    def body(self):
        if not self._resolved:
            self.tu.resolve(self.d.get('body'))
            if 'inits' in self.d:
                self.tu.resolve(self.d['inits'])
            self._resolved = True
        return self.d.get('body')

    @property
    def inits(self):
        self.body
        return self.d.get('inits', [])

    @property
    def where(self):
        l = self.d.get('dl') or self.d.get('l')
        if isinstance(l, str) and l.endswith(':m'):
            l = l[:-2]
        return self.tu.loc(l)

    @property
    def scalar(self):
        q = self.d['q']
        if '<long double' in q:
            return 'long double'
        if '<double' in q:
            return 'double'
        return None

    def __repr__(self):
        return '<Fn %s %s>' % (self.d['q'], self.d['sig'])


class Program:
    def __init__(self, irdir, srcs, repo):
        self.repo = repo
        self.irdir = irdir
        self.tus = {}
        self.functions = []        # de-duplicated definitions
        self.by_q = {}             # qname -> [Fn]
        self.records = {}          # qname -> record dict (with 'tu')
        self.vars = {}             # qname -> var dict
        self.templates = {}        # tu -> list
        self.decls = {}            # tu -> list of declaration-only functions
        self.fn_by_tu = {}
        seen = {}
        for s in srcs:
            with open(os.path.join(irdir, s + '.json')) as f:
                data = json.load(f)
            tu = TU(s, data, extraction_root(irdir, repo), None)
            self.tus[s] = tu
            self.templates[s] = data['templates']
            for t in data['templates']:
                t['l'] = tu.loc(t['l'])
            self.decls[s] = data['decls']
            for t in data['decls']:
                t['l'] = tu.loc(t['l'][:-2] if t['l'].endswith(':m') else t['l'])
            self.fn_by_tu[s] = []
            for d in data['functions']:
                fn = Fn(d, tu)
                self.fn_by_tu[s].append(fn)
                key = (d['q'], d['sig'])
                prev = seen.get(key)
                if prev is None:
                    seen[key] = fn
                elif prev.get('tsk') != 'explicit_def' and d.get('tsk') == 'explicit_def':
                    seen[key] = fn
            for r in data['records']:
                r['tu'] = tu
                r['l'] = tu.loc(r['l'][:-2] if r['l'].endswith(':m') else r['l'])
                for m in r['methods']:
                    for k in ('l', 'dl'):
                        if k in m:
                            v = m[k]
                            m[k] = tu.loc(v[:-2] if v.endswith(':m') else v)
                for fl in r['fields'] + r['statics']:
                    fl['l'] = tu.loc(fl['l'])
                prev = self.records.get(r['q'])
                if prev is None or (prev.get('tsk') != 'explicit_def' and r.get('tsk') == 'explicit_def'):
                    self.records[r['q']] = r
            for v in data['vars']:
                tu.resolve(v)
                v['tu'] = s
                prev = self.vars.get(v['q'])
                if prev is None or (prev.get('init') is None and v.get('init') is not None):
                    self.vars[v['q']] = v
        self.functions = list(seen.values())
        for fn in self.functions:
            self.by_q.setdefault(fn.q, []).append(fn)

    def fn(self, q, sig=None):
        c = self.by_q.get(q, [])
        if sig is not None:
            c = [f for f in c if f.sig == sig]
        return c

    def methods_of(self, recq):
        return [f for f in self.functions if f.get('rec') == recq]

    def find_method(self, recq, name, nparams=None):
        out = []
        for f in self.functions:
            if f.get('rec') == recq and f.n == name and (nparams is None or len(f.params) == nparams):
                out.append(f)
        return out

    def base_chain(self, recq):
        """record and all its transitive bases (qnames), nearest first"""
        out = []
        todo = [recq]
        while todo:
            r = todo.pop(0)
            if r in out:
                continue
            out.append(r)
            rec = self.records.get(r)
            if rec:
                todo += rec['bases']
        return out


_loaded = {}


def load(repo=None, extra_defs=()):
    repo = repo or REPO
    k = (repo, tuple(extra_defs))
    if k not in _loaded:
        t0 = time.time()
        irdir, srcs = extract(repo, extra_defs)
        p = Program(irdir, srcs, repo)
        p.load_s = time.time() - t0
        p.srcs = srcs
        p.extra_defs = tuple(extra_defs)
        _loaded[k] = p
    return _loaded[k]


if __name__ == '__main__':
    p = load()
    print('TUs', len(p.tus), 'functions', len(p.functions), 'records', len(p.records), 'vars', len(p.vars), '%.1fs' % p.load_s)


def c_header_decls(repo=None):
    """Function declarations a C (or SWIG) consumer of masa.h sees: the header is
    parsed in C mode by the same extractor.  Returns list of decl dicts."""
    repo = repo or REPO
    irdir, _ = extract(repo)
    out = os.path.join(irdir, '_masa_h_c.json')
    if not os.path.exists(out):
        tmp = tempfile.mkdtemp(prefix='ch-', dir=CACHE)
        try:
            gen_masa_h(repo, os.path.join(tmp, 'inc'))
            with open(os.path.join(tmp, 'h.c'), 'w') as f:
                f.write('#include <masa.h>\n')
            cmd = [EXTRACTOR, '--out=' + os.path.join(tmp, 'h.json'), '--root=' + os.path.join(tmp, 'inc'),
                   os.path.join(tmp, 'h.c'), '--', '-x', 'c', '-std=gnu11', '-Wno-everything', '-I' + os.path.join(tmp, 'inc')]
            p = subprocess.run(cmd, stdout=subprocess.PIPE, stderr=subprocess.PIPE, text=True)
            if p.returncode != 0 or not os.path.exists(os.path.join(tmp, 'h.json')):
                raise AnalysisBroken('masa.h does not parse as C: ' + p.stderr.strip()[-300:])
            os.replace(os.path.join(tmp, 'h.json'), out)
        finally:
            shutil.rmtree(tmp, ignore_errors=True)
    with open(out) as f:
        d = json.load(f)
    res = []
    for x in d['decls'] + d['functions']:
        l = x['l'].split(':')
        x['l'] = 'src/masa.h.in:%s:%s' % (l[1], l[2])
        res.append(x)
    return res
