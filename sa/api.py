"""API-level evaluation shared by C07.G1, C12.H1/H4, C15.R2, C16.R2/R3.

Every MASA:: entry point is evaluated by forward substitution with its callees
inlined: the registry accessor masa_master<S>() (returns a reference to a
global), the registry methods (get_ms, verify_pointer_sanity, select_mms, ...)
and any helper in between.  What a rule looks at is therefore the effect of the
entry point - which registry object it touches, under which path condition it
reaches the selected solution, which virtual slot it calls with which
arguments - not the spelling of its body.  Helpers, local reference aliases,
named temporaries and early-return forms give the same paths.
"""
from . import terms
from . import catalogue as cat
from .report import AnalysisBroken

_REG = {}
_EVAL = {}


def registry_globals(prog):
    """{scalar: 'global:<qualified name of the registry object masa_master<scalar>() returns>'}"""
    key = id(prog)
    if key in _REG:
        return _REG[key]
    regs = {}
    for sc in cat.SCALARS:
        acc = [f for f in prog.functions if f.n == 'masa_master' and f.q.endswith('masa_master<%s>' % sc)]
        if len(acc) != 1:
            raise AnalysisBroken('masa_master<%s> not found' % sc)
        E0 = terms.Evaluator(prog, scalar=sc)
        o0 = E0.run(acc[0])
        if not (len(o0) == 1 and o0[0].ret is not None and o0[0].ret[0] == 'sym' and o0[0].ret[1].startswith('global:')):
            raise AnalysisBroken('masa_master<%s>() does not return one global object' % sc)
        regs[sc] = o0[0].ret[1]
    _REG[key] = regs
    return regs


def api_functions(prog, scalar=None):
    return [f for f in prog.functions if f.q.startswith('MASA::') and not f.get('rec') and (scalar is None or f.scalar == scalar)]


def evaluate(prog, f, scalar):
    """(Evaluator, all paths incl. fatal ones) of entry point f with callees inlined and masa_exit as terminator"""
    key = (id(prog), f.q, f.sig)
    if key not in _EVAL:
        E = terms.Evaluator(prog, scalar=scalar, noreturn=('masa_exit',))
        try:
            outs = E.run(f)
        except RecursionError:
            raise AnalysisBroken('%s: evaluation too deep' % f.q)
        paths = list(outs) + [p for p in E.trace.exit_paths if p not in outs]
        _EVAL[key] = (E, paths)
    return _EVAL[key]


def pointer_path(prog, scalar):
    return registry_globals(prog)[scalar] + '._master_pointer'


def nonnull_fact(c, ptr):
    """does condition c state that the selection pointer (member path ptr) is not null"""
    neg = False
    while c[0] == 'not':
        neg = not neg
        c = c[1]
    p = ('sym', ptr)
    if c[0] == 'cmp' and c[1] in ('==', '!=') and ((c[2] == p and c[3] == terms.num(0)) or (c[3] == p and c[2] == terms.num(0))):
        return (c[1] == '!=') != neg
    if c == p:
        return not neg
    return False


def null_fact(c, ptr):
    return nonnull_fact(('not', c), ptr)


def flat(events):
    out = []

    def rec(es):
        for e in es:
            if e[0] in ('loop', 'branch'):
                for k_, c_, sub in e[1][1]:
                    rec(sub)
            else:
                out.append(e)
    rec(events)
    return out


def uses_of_solution(events, ptr):
    """indices of events that touch the object the selection pointer designates"""
    tgt = ptr + '*'
    idx = []
    for i, e in enumerate(events):
        if e[0] == 'call' and len(e[1]) > 2 and e[1][2] is not None and e[1][2] == ('sym', tgt):
            idx.append(i)
        elif e[0] == 'write' and isinstance(e[1], str) and e[1].startswith(tgt):
            idx.append(i)
        elif e[0] in ('store', 'write-through') and any(isinstance(x, tuple) and x[0] == 'sym' and x[1].startswith(tgt) for t in (e[1] if isinstance(e[1], tuple) else ()) for x in terms.subterms(t) if isinstance(t, tuple)):
            idx.append(i)
    return idx
