"""Small helpers over IR expression / statement trees."""
from .ir import walk

TRANSPARENT_CASTS = ('NoOp', 'LValueToRValue', 'FunctionToPointerDecay', 'ArrayToPointerDecay')


def strip(e, casts=False):
    """peel parens, loads, default-arg wrappers and no-op casts.  With casts=True
    every cast node is peeled (use only where the value's identity matters, not
    its representation)."""
    while isinstance(e, dict):
        k = e.get('k')
        if k in ('paren', 'load', 'defarg'):
            e = e['e']
        elif k == 'cast' and (casts or e['ck'] in TRANSPARENT_CASTS or
                              (e['ck'] == 'ConstructorConversion') or
                              (e.get('from') == e.get('t') and e['ck'] in ('NoOp',))):
            e = e['e']
        else:
            break
    return e


def strip_fnptr(e):
    """(*f) applied to a function pointer is f"""
    e = strip(e)
    while isinstance(e, dict) and e.get('k') == 'un' and e['op'] == '*' and '(' in str(e.get('t', '')):
        e = strip(e['e'])
    return e


def is_param(e, idx=None, name=None):
    e = strip(e)
    if not isinstance(e, dict) or e.get('k') != 'param' or e.get('foreign'):
        return False
    if idx is not None and e['i'] != idx:
        return False
    if name is not None and e['n'] != name:
        return False
    return True


def peel_copy(e):
    """copy/move construction of a class object from an lvalue of the same type is
    value-preserving: peel it"""
    e = strip(e)
    while isinstance(e, dict) and e.get('k') == 'construct' and len(e['args']) == 1:
        a = strip(e['args'][0])
        if isinstance(a, dict) and a.get('t') is not None and a.get('t') == e.get('t') or \
                (isinstance(a, dict) and e.get('ctor', '').startswith('void (const ' + e.get('t', '?') + ' &')):
            e = a
        else:
            break
    return e


def is_local(e, lid=None, casts=False):
    e = strip(e, casts=casts)
    return isinstance(e, dict) and e.get('k') == 'local' and (lid is None or e['id'] == lid)


def is_this_member(e, name=None):
    """this->X (or implicit this) of the object itself"""
    e = strip(e)
    if not isinstance(e, dict) or e.get('k') != 'member':
        return False
    b = strip(e['base'], casts=True)
    if not (isinstance(b, dict) and b.get('k') == 'this'):
        return False
    return name is None or e['n'] == name


def member_path(e):
    """access path of a member expression rooted at this: ['this','a','b'];
    rooted at a local/param object: ['local:x', 'a']; else None"""
    e = strip(e, casts=True)
    if not isinstance(e, dict):
        return None
    k = e.get('k')
    if k == 'this':
        return ['this']
    if k == 'local':
        return ['local:%s' % e['n']]
    if k == 'param':
        return ['param:%s' % e['n']]
    if k == 'member':
        b = member_path(e['base'])
        if b is None:
            return None
        return b + [e['n']]
    if k == 'un' and e['op'] == '*':
        return member_path(e['e'])
    return None


def stmts(body):
    """top-level statement list of a function body / block"""
    if body is None:
        return []
    if body.get('k') == 'block':
        return body['s']
    return [body]


def flat_stmts(body):
    """statement list with nested plain blocks flattened and empty decls dropped"""
    out = []
    for s in stmts(body):
        if s is None:
            continue
        if s.get('k') == 'block':
            out += flat_stmts(s)
        elif s.get('k') == 'decl' and not s['vars']:
            continue
        elif s.get('k') == 'null':
            continue
        else:
            out.append(s)
    return out


def calls(node, q=None, name=None):
    for n in walk(node):
        if n.get('k') == 'call':
            if q is not None and n.get('q') != q:
                continue
            if name is not None and n.get('n') != name:
                continue
            yield n


def nodes(node, kind):
    for n in walk(node):
        if n.get('k') == kind:
            yield n


def contains(node, pred):
    for n in walk(node):
        if pred(n):
            return True
    return False


def int_value(e):
    e = strip(e, casts=True)
    if isinstance(e, dict):
        if e.get('k') == 'int':
            return int(e['v'])
        if e.get('k') == 'un' and e['op'] == '-':
            v = int_value(e['e'])
            return None if v is None else -v
        if e.get('k') == 'un' and e['op'] == '+':
            return int_value(e['e'])
    return None


def str_value(e):
    """string literal possibly wrapped in a std::string construction"""
    e = strip(e, casts=True)
    if isinstance(e, dict):
        if e.get('k') == 'str':
            return e['v']
        if e.get('k') == 'construct' and 'basic_string' in e.get('t', '') and e['args']:
            return str_value(e['args'][0])
    return None


def string_from(e):
    """if e constructs a std::string from a C string expression, return that expr"""
    e = strip(e, casts=True)
    if isinstance(e, dict) and e.get('k') == 'construct' and 'basic_string<char' in e.get('t', ''):
        if e['args'] and e['ctor'].startswith('void (const char *'):
            return strip(e['args'][0])
    return None


def reads_local(node, lid):
    return contains(node, lambda n: n.get('k') == 'local' and n.get('id') == lid)


def reads_param(node, idx):
    return contains(node, lambda n: n.get('k') == 'param' and n.get('i') == idx and not n.get('foreign'))


def show(e, depth=0):
    """compact one-line rendering of an expression (for reports only)"""
    if e is None:
        return ''
    if depth > 40:
        return '...'
    k = e.get('k')
    d = depth + 1
    if k in ('paren',):
        return '(' + show(e['e'], d) + ')'
    if k in ('load', 'defarg'):
        return show(e['e'], d)
    if k == 'cast':
        if e.get('imp'):
            return show(e['e'], d)
        return '%s(%s)' % (e['t'], show(e['e'], d))
    if k == 'bin':
        return '%s %s %s' % (show(e['a'], d), e['op'], show(e['b'], d))
    if k == 'un':
        return (show(e['e'], d) + e['op']) if e.get('post') else (e['op'] + show(e['e'], d))
    if k in ('int', 'float'):
        return e.get('sp') or e['v']
    if k == 'str':
        return '"%s"' % e['v']
    if k in ('param', 'local'):
        return e['n']
    if k == 'global':
        return e['q'].split('::')[-1]
    if k == 'member':
        b = strip(e['base'], casts=True)
        if b.get('k') == 'this':
            return e['n']
        return show(e['base'], d) + '.' + e['n']
    if k == 'this':
        return 'this'
    if k == 'call':
        nm = e.get('n') or 'indirect'
        args = ', '.join(show(a, d) for a in e['args'])
        if 'obj' in e and e.get('obj'):
            return '%s.%s(%s)' % (show(e['obj'], d), nm, args)
        return '%s(%s)' % (nm, args)
    if k == 'construct':
        return '%s(%s)' % (e['t'].split('<')[0], ', '.join(show(a, d) for a in e['args']))
    if k == 'index':
        return '%s[%s]' % (show(e['base'], d), show(e['idx'], d))
    if k == 'cond':
        return '%s ? %s : %s' % (show(e['c'], d), show(e['a'], d), show(e['b'], d))
    if k == 'fnref':
        return e['q']
    return '<%s>' % k


def full_container_loop(loop, container_pred):
    """`for (it = C.begin(); it != C.end(); ++it)` over a container expression accepted by
    container_pred(expr).  Returns the iterator's local id or None."""
    if loop.get('k') != 'for':
        return None
    init = loop.get('init')
    if not (init and init.get('k') == 'decl' and len(init['vars']) == 1):
        return None
    v = init['vars'][0]
    i = strip(v.get('init'), casts=True) if v.get('init') else {}
    while i.get('k') == 'construct' and len(i['args']) == 1:
        i = strip(i['args'][0], casts=True)
    if not (i.get('k') == 'call' and i.get('n') in ('begin', 'cbegin') and container_pred(i.get('obj'))):
        return None
    c = strip(loop.get('c'), casts=True)
    if not (c.get('k') == 'call' and c.get('n') == 'operator!=' and len(c['args']) == 2):
        return None
    a, b = strip(c['args'][0], casts=True), strip(c['args'][1], casts=True)
    while b.get('k') == 'construct' and len(b['args']) == 1:
        b = strip(b['args'][0], casts=True)
    if not (is_local(a, v['id']) and b.get('k') == 'call' and b.get('n') in ('end', 'cend') and container_pred(b.get('obj'))):
        return None
    inc = strip(loop.get('inc'), casts=True)
    if not (inc.get('k') == 'call' and inc.get('n') == 'operator++' and is_local(inc['args'][0], v['id'])):
        return None
    return v['id']


def assigned_in(node, lid):
    """is local lid assigned (other than by ++) inside node"""
    for n in walk(node):
        if n.get('k') == 'bin' and n['op'].endswith('=') and n['op'] not in ('==', '!=', '<=', '>=') and is_local(n['a'], lid):
            return True
        if n.get('k') == 'call' and n.get('opcall') and n.get('n') in ('operator=',) and is_local(n['args'][0], lid):
            return True
    return False


def resolve_ref_local(body, e, depth=0):
    """a local declared as a reference (or a const copy of an iterator) stands for its initialiser when it is never reassigned"""
    e = strip(e, casts=True)
    while isinstance(e, dict) and e.get('k') == 'construct' and len(e.get('args', [])) == 1:
        e = strip(e['args'][0], casts=True)
    if isinstance(e, dict) and e.get('k') == 'local' and depth < 4:
        for d in nodes(body, 'decl'):
            for v in d['vars']:
                if v['id'] == e['id'] and v.get('init') is not None and not assigned_in(body, e['id']):
                    return resolve_ref_local(body, v['init'], depth + 1)
    return e


def whole_container_traversal(body, container_pred):
    """loops that visit every element of a container accepted by container_pred(expr) exactly once:
         for (it = C.begin(); it != C.end(); ++it) ...
         it = C.begin(); [stop = C.end();] while (it != C.end() | stop) { ...; ++it; }
       Returns (verdict, loop, iterator id): True for a loop of that shape with no break/continue/extra stepping,
       False for a loop over C's iterators that deviates from it, None when no loop over C is found."""
    verdict, found, itid = None, None, None

    def is_call(e, names):
        e = resolve_ref_local(body, e)
        return isinstance(e, dict) and e.get('k') == 'call' and e.get('n') in names and container_pred(resolve_ref_local(body, e.get('obj')) if e.get('obj') is not None else None)

    for kind in ('for', 'while'):
        for l in nodes(body, kind):
            c = strip(l.get('c'), casts=True) if l.get('c') is not None else {}
            if not (c.get('k') == 'call' and c.get('n') in ('operator!=', 'operator==', 'operator<') and len(c.get('args', [])) == 2):
                continue
            a, b = strip(c['args'][0], casts=True), c['args'][1]
            while a.get('k') == 'construct' and len(a['args']) == 1:
                a = strip(a['args'][0], casts=True)
            if a.get('k') != 'local':
                continue
            it = a['id']
            # where does the iterator start
            start = None
            if kind == 'for' and l.get('init') and l['init'].get('k') == 'decl':
                for v in l['init']['vars']:
                    if v['id'] == it:
                        start = v.get('init')
            if start is None:
                for d in nodes(body, 'decl'):
                    for v in d['vars']:
                        if v['id'] == it:
                            start = v.get('init')
            starts_at_begin = start is not None and is_call(start, ('begin', 'cbegin'))
            ends_at_end = is_call(b, ('end', 'cend'))
            if not (starts_at_begin or ends_at_end):
                continue        # not a loop over this container
            lb = l.get('body')
            early = [n for n in walk(lb) if n.get('k') in ('break', 'continue', 'return', 'goto')]
            steps = [n for n in walk({'b': lb, 'i': l.get('inc')}) if n.get('k') == 'call' and n.get('n') in ('operator++', 'operator--', 'operator+=', 'operator-=', 'operator=') and
                     n.get('args') and is_local(n['args'][0], it, casts=True)]
            one_step = len(steps) == 1 and steps[0]['n'] == 'operator++'
            if kind == 'while' and one_step:
                # the step must be the last statement of the body (executed on every iteration after the work)
                st = flat_stmts(lb)
                one_step = bool(st) and any(n is steps[0] for n in walk(st[-1]))
            elif kind == 'for' and one_step:
                one_step = any(n is steps[0] for n in walk(l.get('inc') or {}))
            good = starts_at_begin and ends_at_end and c.get('n') == 'operator!=' and one_step and not early
            if good:
                return True, l, it
            verdict, found, itid = False, l, it
    return verdict, found, itid
