"""Catalogue enumeration shared by C07, C10, C11, C12, C14, C15, C19.

The catalogue is read off get_list_mms<Scalar>: the ordered list of
`anim.push_back(new X<Scalar>())` statements.  Anything else in that function
is reported by the callers (C14.K1 / C19.O1) - here we only enumerate.
"""
from .ast import strip, flat_stmts, is_param, calls
from .ir import walk
from .report import AnalysisBroken

SCALARS = ('double', 'long double')
BASE = 'MASA::manufactured_solution<%s>'
FIXTURES = ('masa_test_function', 'masa_uninit')


def get_list_fn(prog, scalar):
    c = [f for f in prog.functions if f.n == 'get_list_mms' and f.q.endswith('get_list_mms<%s>' % scalar)]
    if len(c) != 1:
        raise AnalysisBroken('get_list_mms<%s> not found (%d candidates)' % (scalar, len(c)))
    return c[0]


def entries(prog, scalar):
    """[(class qname, new-expression node, statement)] in registration order, plus list of
    statements of get_list_mms that are not a registration"""
    fn = get_list_fn(prog, scalar)
    out, other = [], []
    for s in flat_stmts(fn.body):
        e = strip(s)
        if e.get('k') == 'call' and e.get('n') == 'push_back' and is_param(e.get('obj'), 0) and len(e['args']) == 1:
            a = strip(e['args'][0], casts=True)
            if a.get('k') == 'new' and not a.get('array'):
                out.append((a['ty'], a, s))
                continue
        other.append(s)
    return fn, out, other


def short(cls):
    """MASA::euler_1d<double> -> euler_1d"""
    s = cls.split('::')[-1]
    return s.split('<')[0]


def base_virtuals(prog, scalar):
    """{(name, sig): method dict} of the virtual methods of manufactured_solution<scalar>"""
    rec = prog.records.get(BASE % scalar)
    if rec is None:
        raise AnalysisBroken('record %s not in IR' % (BASE % scalar))
    return {(m['n'], m['sig']): m for m in rec['methods'] if m.get('virt') and not m.get('dtor')}


def resolve_virtual(prog, cls, name, sig):
    """the final overrider of (name, sig) for an object of dynamic class cls:
    returns (owner record qname, method dict)"""
    for r in prog.base_chain(cls):
        rec = prog.records.get(r)
        if rec is None:
            continue
        for m in rec['methods']:
            if m['n'] == name and m['sig'] == sig:
                return r, m
    return None, None


_REG_CACHE = {}


def registrations(prog, cls):
    """Registered parameters of a catalogue class, in registration order, obtained by forward substitution of the
    default constructor with register_var / register_vec kept opaque (so table-driven and functor-driven registration
    are followed, constant-trip loops unrolled).
    returns list of dicts {kind:'var'|'vec', name (None when not a literal), path (['this', ...] or None), node:{'l':loc}, where}"""
    key = (id(prog), cls)
    if key in _REG_CACHE:
        return _REG_CACHE[key]
    from . import terms
    out = []
    ctors = [f for f in prog.methods_of(cls) if f.get('ctor') and len(f.params) == 0]
    if not ctors:
        _REG_CACHE[key] = out
        return out
    scalar = 'long double' if '<long double' in cls else 'double'
    E = terms.Evaluator(prog, dyn_class=cls, scalar=scalar, opaque=('register_var', 'register_vec', 'init_var'))
    outs = E.run(ctors[0])
    if len(outs) != 1:
        raise AnalysisBroken('constructor of %s has %d paths' % (cls, len(outs)))

    def flat(evs):
        for e in evs:
            if e[0] in ('loop', 'branch'):
                for k_, c_, sub in e[1][1]:
                    for x in flat(sub):
                        yield x
            else:
                yield e
    for e in flat(outs[0].events):
        if e[0] != 'call' or not e[1][0].endswith(('::register_var', '::register_vec')):
            continue
        kind = 'var' if e[1][0].endswith('::register_var') else 'vec'
        args = e[1][1]
        nm = args[0][1] if args and args[0][0] == 'str' else None
        tgt = args[1] if len(args) > 1 else ('unk', '')
        if tgt[0] == 'addr':
            tgt = tgt[1]
        path = None
        if tgt[0] == 'sym' and not tgt[1].startswith(('global:', 'const:', 'fn:', 'this:', '@')):
            path = ['this'] + tgt[1].split('.')
        out.append({'kind': kind, 'name': nm, 'path': path, 'node': {'l': e[2]}, 'where': e[2], 'fn': ctors[0]})
    _REG_CACHE[key] = out
    return out


_NAME_CACHE = {}


def name_literal(prog, cls):
    """the string literal a catalogue class's default constructor leaves in mmsname (what return_name hands out), or None"""
    key = (id(prog), cls)
    if key in _NAME_CACHE:
        return _NAME_CACHE[key]
    from . import terms
    lit = None
    ctors = [f for f in prog.methods_of(cls) if f.get('ctor') and len(f.params) == 0]
    if ctors:
        scalar = 'long double' if '<long double' in cls else 'double'
        E = terms.Evaluator(prog, dyn_class=cls, scalar=scalar, opaque=('register_var', 'register_vec', 'init_var'))
        try:
            outs = E.run(ctors[0])
        except RecursionError:
            outs = []
        vals = set(o.mem.get('mmsname') for o in outs)
        if len(vals) == 1:
            v = vals.pop()
            if v is not None and v[0] == 'str':
                lit = v[1]
    _NAME_CACHE[key] = lit
    return lit
