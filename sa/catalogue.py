"""Catalogue enumeration shared by C07, C10, C11, C12, C14, C15, C19.

The catalogue is read off get_list_mms<Scalar>: the ordered list of
`anim.push_back(new X<Scalar>())` statements.  Anything else in that function
is reported by the callers (C14.K1 / C19.O1) - here we only enumerate.
"""
from .ast import strip, flat_stmts, is_param, calls
from .ir import walk
from .report import AnalysisBroken

SCALARS = ('double', 'long double')
BASE = 'MASA::manufactured_solution<%s>'
FIXTURES = ('masa_test_function', 'masa_uninit')


def get_list_fn(prog, scalar):
    c = [f for f in prog.functions if f.n == 'get_list_mms' and f.q.endswith('get_list_mms<%s>' % scalar)]
    if len(c) != 1:
        raise AnalysisBroken('get_list_mms<%s> not found (%d candidates)' % (scalar, len(c)))
    return c[0]


_ENT_CACHE = {}


def entries(prog, scalar):
    """The catalogue in registration order, obtained by evaluating get_list_mms<scalar> on an empty vector with the concrete
    vector model: whatever the function does (push_back(new X) statements, per-family helpers, tables of factory functions,
    a registrar object), the result is the final content of the vector.
    Returns (get_list_mms Fn, [(class qname, {'l': location of the new-expression}, None)], [descriptions of anything else the
    function does])."""
    key = (id(prog), scalar)
    if key in _ENT_CACHE:
        return _ENT_CACHE[key]
    from . import terms
    r = None
    try:
        fn = get_list_fn(prog, scalar)
        if fn.params and 'std::vector<' in str(fn.params[0].get('t', '')):
            r = _entries_from_list_function(prog, scalar, fn)
    except AnalysisBroken:
        r = None
    if r is None:
        r = _entries_from_init(prog, scalar)
    _ENT_CACHE[key] = r
    return r


def _entries_from_init(prog, scalar):
    """fallback when there is no `get_list_mms(vector&)`: the catalogue is what masa_init can construct - the objects created,
    in order, on the path of init_mms on which no candidate matches (every candidate is constructed and examined)"""
    from . import ownership, terms
    rq = [r_ for r_ in prog.records if r_.endswith('MasterMS<%s>' % scalar)]
    if len(rq) != 1:
        raise AnalysisBroken('MasterMS<%s> not found' % scalar)
    im = [f for f in prog.methods_of(rq[0]) if f.n == 'init_mms']
    if len(im) != 1:
        raise AnalysisBroken('neither get_list_mms(vector&) nor MasterMS<%s>::init_mms found' % scalar)
    E, facts = ownership.analyse(prog, im[0], scalar)
    best = max(facts, key=lambda F: len(F.created)) if facts else None
    if best is None or not best.created:
        raise AnalysisBroken('init_mms<%s> constructs no catalogue object on any path' % scalar)
    out = [(ty, {'l': loc, 'k': 'new', 'ty': ty}, None) for ty, loc in best.created]
    fn = im[0]
    try:
        fn = get_list_fn(prog, scalar)
    except AnalysisBroken:
        pass
    return (fn, out, [])


def _entries_from_list_function(prog, scalar, fn):
    from . import terms
    E = terms.Evaluator(prog, scalar=scalar, noreturn=('masa_exit',))
    E.vecmodel = True
    E.unroll_paths = True
    P = terms.Path()
    fr0 = {'id': E.new_frame_id(), 'args': [], 'this': '', 'depth': 0, 'fn': None}
    holder = {'k': 'local', 'id': -1, 'n': '@list', 't': 'std::vector<>', 'l': fn.where}
    P.locals[(fr0['id'], -1)] = ('cvec', ())
    fr = {'id': E.new_frame_id(), 'args': [('alias', holder, fr0)] + [('sym', p_['n']) for p_ in fn.params[1:]], 'this': '', 'depth': 0, 'fn': fn}
    try:
        outs = E.exec_block(terms.stmts(fn.body), [P], fr, top=True)
    except RecursionError:
        raise AnalysisBroken('get_list_mms<%s>: evaluation too deep' % scalar)
    outs = [o for o in outs if o.kind != 'exit']
    if len(outs) != 1:
        raise AnalysisBroken('get_list_mms<%s> has %d returning paths: the catalogue depends on a run-time condition' % (scalar, len(outs)))
    v = outs[0].locals.get((fr0['id'], -1))
    if not (v is not None and v[0] == 'cvec'):
        raise AnalysisBroken('get_list_mms<%s>: the content of the list could not be followed (%s)' % (scalar, terms.fmt(v)[:80] if v else None))
    out, other = [], []
    for x in v[1]:
        if x is not None and x[0] == 'new':
            out.append((x[1], {'l': x[2], 'k': 'new', 'ty': x[1]}, None))
        else:
            other.append({'k': 'other', 'l': fn.where, 'what': 'list element `%s` is not a new-expression' % (terms.fmt(x)[:60] if x else None)})
    news = [e for e in outs[0].events if e[0] == 'new']
    if len(news) != len(out):
        other.append({'k': 'other', 'l': fn.where, 'what': '%d objects are created but %d are listed' % (len(news), len(out))})
    for e in outs[0].events:
        if e[0] in ('print', 'delete', 'write-through', 'store', 'libcall', 'terminate') or (e[0] == 'write' and not str(e[1]).startswith('@')):
            other.append({'k': 'other', 'l': e[2], 'what': 'side effect %s' % e[0]})
    if E.trace.globals_written or E.trace.static_locals and any(True for n_, l_ in E.trace.static_locals if False):
        other.append({'k': 'other', 'l': fn.where, 'what': 'writes a global'})
    return (fn, out, other)


def short(cls):
    """MASA::euler_1d<double> -> euler_1d"""
    s = cls.split('::')[-1]
    return s.split('<')[0]


def base_virtuals(prog, scalar):
    """{(name, sig): method dict} of the virtual methods of manufactured_solution<scalar>"""
    rec = prog.records.get(BASE % scalar)
    if rec is None:
        raise AnalysisBroken('record %s not in IR' % (BASE % scalar))
    return {(m['n'], m['sig']): m for m in rec['methods'] if m.get('virt') and not m.get('dtor')}


def resolve_virtual(prog, cls, name, sig):
    """the final overrider of (name, sig) for an object of dynamic class cls:
    returns (owner record qname, method dict)"""
    for r in prog.base_chain(cls):
        rec = prog.records.get(r)
        if rec is None:
            continue
        for m in rec['methods']:
            if m['n'] == name and m['sig'] == sig:
                return r, m
    return None, None


_REG_CACHE = {}


def registrations(prog, cls):
    """Registered parameters of a catalogue class, in registration order, obtained by forward substitution of the
    default constructor with register_var / register_vec kept opaque (so table-driven and functor-driven registration
    are followed, constant-trip loops unrolled).
    returns list of dicts {kind:'var'|'vec', name (None when not a literal), path (['this', ...] or None), node:{'l':loc}, where}"""
    key = (id(prog), cls)
    if key in _REG_CACHE:
        return _REG_CACHE[key]
    from . import terms
    out = []
    ctors = [f for f in prog.methods_of(cls) if f.get('ctor') and len(f.params) == 0]
    if not ctors:
        _REG_CACHE[key] = out
        return out
    scalar = 'long double' if '<long double' in cls else 'double'
    E = terms.Evaluator(prog, dyn_class=cls, scalar=scalar, opaque=('register_var', 'register_vec', 'init_var'))
    E.vecmodel = True
    outs = E.run(ctors[0])
    if len(outs) != 1:
        raise AnalysisBroken('constructor of %s has %d paths' % (cls, len(outs)))

    def flat(evs):
        for e in evs:
            if e[0] in ('loop', 'branch'):
                for k_, c_, sub in e[1][1]:
                    for x in flat(sub):
                        yield x
            else:
                yield e
    for e in flat(outs[0].events):
        if e[0] != 'call' or not e[1][0].endswith(('::register_var', '::register_vec')):
            continue
        kind = 'var' if e[1][0].endswith('::register_var') else 'vec'
        args = e[1][1]
        nm = args[0][1] if args and args[0][0] == 'str' else None
        tgt = args[1] if len(args) > 1 else ('unk', '')
        if tgt[0] == 'addr':
            tgt = tgt[1]
        path = None
        if tgt[0] == 'sym' and not tgt[1].startswith(('global:', 'const:', 'fn:', 'this:', '@')):
            path = ['this'] + tgt[1].split('.')
        out.append({'kind': kind, 'name': nm, 'path': path, 'node': {'l': e[2]}, 'where': e[2], 'fn': ctors[0]})
    _REG_CACHE[key] = out
    return out


_NAME_CACHE = {}


def name_literal(prog, cls):
    """the string literal a catalogue class's default constructor leaves in mmsname (what return_name hands out), or None"""
    key = (id(prog), cls)
    if key in _NAME_CACHE:
        return _NAME_CACHE[key]
    from . import terms
    lit = None
    ctors = [f for f in prog.methods_of(cls) if f.get('ctor') and len(f.params) == 0]
    if ctors:
        scalar = 'long double' if '<long double' in cls else 'double'
        E = terms.Evaluator(prog, dyn_class=cls, scalar=scalar, opaque=('register_var', 'register_vec', 'init_var'))
        try:
            outs = E.run(ctors[0])
        except RecursionError:
            outs = []
        vals = set(o.mem.get('mmsname') for o in outs)
        if len(vals) == 1:
            v = vals.pop()
            if v is not None and v[0] == 'str':
                lit = v[1]
    _NAME_CACHE[key] = lit
    return lit


_CC_CACHE = {}
_CC_BUSY = set()


def ctor_constants(prog, cls):
    """{member: constant} for the integer / bool / string members of a catalogue class that its constructor chain sets to a
    constant on every path and that no other function of the program writes (dimension, mmsname, ...)"""
    key = (id(prog), cls)
    if key in _CC_CACHE:
        return _CC_CACHE[key]
    if key in _CC_BUSY:
        return {}
    _CC_BUSY.add(key)
    out = {}
    try:
        from . import terms
        from .ir import walk
        from .ast import strip
        ctors = [f for f in prog.methods_of(cls) if f.get('ctor') and len(f.params) == 0]
        if ctors and ctors[0].body is not None:
            scalar = 'long double' if '<long double' in cls else 'double'
            E = terms.Evaluator(prog, dyn_class=cls, scalar=scalar, opaque=('register_var', 'register_vec', 'init_var'))
            try:
                outs = E.run(ctors[0])
            except Exception:
                outs = []
            # the classes of the hierarchy and the types of their fields
            hier, todo = [], [cls]
            while todo:
                k = todo.pop()
                if k in hier or k not in prog.records:
                    continue
                hier.append(k)
                todo.extend((b.get('q') if isinstance(b, dict) else b) for b in prog.records[k].get('bases', []))
            ftype = {}
            for k in hier:
                for fld in prog.records[k].get('fields', []):
                    ftype.setdefault(fld['n'], str(fld.get('t', '')))
            cand = {}
            if outs:
                for m, v in outs[0].mem.items():
                    if '.' in m or v[0] not in ('num', 'str'):
                        continue
                    ty = ftype.get(m, '').replace('const ', '')
                    if ty not in ('int', 'unsigned int', 'bool', 'long', 'unsigned long', 'short') and 'basic_string' not in ty and ty != 'std::string':
                        continue
                    if all(o.mem.get(m) == v for o in outs):
                        cand[m] = v
            if cand:
                written = _written_members(prog)
                out = {m: v for m, v in cand.items() if m not in written}
    finally:
        _CC_BUSY.discard(key)
    _CC_CACHE[key] = out
    return out


_CF_CACHE = {}


def ctor_flags(prog, cls):
    """{member path: 0/1} for the bool members (also inside member structs) that the constructor chain leaves at a constant:
    the state of validity flags right after construction.  Used by the formula checks, which analyse the first evaluation
    after construction; that later evaluations return the same is C10."""
    key = (id(prog), cls)
    if key in _CF_CACHE:
        return _CF_CACHE[key]
    out = {}
    from . import terms
    ctors = [f for f in prog.methods_of(cls) if f.get('ctor') and len(f.params) == 0]
    if ctors and ctors[0].body is not None:
        scalar = 'long double' if '<long double' in cls else 'double'
        E = terms.Evaluator(prog, dyn_class=cls, scalar=scalar, opaque=('register_var', 'register_vec', 'init_var'))
        try:
            outs = E.run(ctors[0])
        except Exception:
            outs = []
        bools = set(fld['n'] for r in prog.records.values() for fld in r.get('fields', []) if str(fld.get('t', '')).replace('const ', '') == 'bool')
        if outs:
            for m, v in outs[0].mem.items():
                if v[0] == 'num' and v[1] in (0, 1) and m.split('.')[-1] in bools and all(o.mem.get(m) == v for o in outs):
                    out[m] = v
    _CF_CACHE[key] = out
    return out


_WM_CACHE = {}


def _written_members(prog):
    """names of the data members some non-constructor function assigns, steps, takes the address of or assigns through operator="""
    key = id(prog)
    if key in _WM_CACHE:
        return _WM_CACHE[key]
    from .ir import walk
    from .ast import strip
    written = set()
    for f in prog.functions:
        if f.body is None or f.get('ctor'):
            continue
        for n in walk(f.body):
            tgt = None
            if n.get('k') == 'bin' and str(n.get('op', '')).endswith('=') and n['op'] not in ('==', '!=', '<=', '>='):
                tgt = strip(n.get('a'), casts=True)
            elif n.get('k') == 'un' and n.get('op') in ('++', '--', '&'):
                tgt = strip(n.get('e'), casts=True)
            elif n.get('k') == 'call' and n.get('opcall') and n.get('n') in ('operator=', 'operator+=') and n.get('args'):
                tgt = strip(n['args'][0], casts=True)
            if isinstance(tgt, dict) and tgt.get('k') == 'member':
                written.add(tgt['n'])
    _WM_CACHE[key] = written
    return written


def _derived(prog, k):
    out, todo = set(), [k]
    while todo:
        x = todo.pop()
        for q, r in prog.records.items():
            if q not in out and any((b.get('q') if isinstance(b, dict) else b) == x for b in r.get('bases', [])):
                out.add(q)
                todo.append(q)
    return out

