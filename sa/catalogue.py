"""Catalogue enumeration shared by C07, C10, C11, C12, C14, C15, C19.

The catalogue is read off get_list_mms<Scalar>: the ordered list of
`anim.push_back(new X<Scalar>())` statements.  Anything else in that function
is reported by the callers (C14.K1 / C19.O1) - here we only enumerate.
"""
from .ast import strip, flat_stmts, is_param, calls
from .ir import walk
from .report import AnalysisBroken

SCALARS = ('double', 'long double')
BASE = 'MASA::manufactured_solution<%s>'
FIXTURES = ('masa_test_function', 'masa_uninit')


def get_list_fn(prog, scalar):
    c = [f for f in prog.functions if f.n == 'get_list_mms' and f.q.endswith('get_list_mms<%s>' % scalar)]
    if len(c) != 1:
        raise AnalysisBroken('get_list_mms<%s> not found (%d candidates)' % (scalar, len(c)))
    return c[0]


def entries(prog, scalar):
    """[(class qname, new-expression node, statement)] in registration order, plus list of
    statements of get_list_mms that are not a registration"""
    fn = get_list_fn(prog, scalar)
    out, other = [], []
    for s in flat_stmts(fn.body):
        e = strip(s)
        if e.get('k') == 'call' and e.get('n') == 'push_back' and is_param(e.get('obj'), 0) and len(e['args']) == 1:
            a = strip(e['args'][0], casts=True)
            if a.get('k') == 'new' and not a.get('array'):
                out.append((a['ty'], a, s))
                continue
        other.append(s)
    return fn, out, other


def short(cls):
    """MASA::euler_1d<double> -> euler_1d"""
    s = cls.split('::')[-1]
    return s.split('<')[0]


def base_virtuals(prog, scalar):
    """{(name, sig): method dict} of the virtual methods of manufactured_solution<scalar>"""
    rec = prog.records.get(BASE % scalar)
    if rec is None:
        raise AnalysisBroken('record %s not in IR' % (BASE % scalar))
    return {(m['n'], m['sig']): m for m in rec['methods'] if m.get('virt') and not m.get('dtor')}


def resolve_virtual(prog, cls, name, sig):
    """the final overrider of (name, sig) for an object of dynamic class cls:
    returns (owner record qname, method dict)"""
    for r in prog.base_chain(cls):
        rec = prog.records.get(r)
        if rec is None:
            continue
        for m in rec['methods']:
            if m['n'] == name and m['sig'] == sig:
                return r, m
    return None, None


def registrations(prog, cls):
    """Registered parameters of a catalogue class: walks the constructor(s) of cls and
    its bases for register_var / register_vec calls.
    returns list of dicts {kind:'var'|'vec', name, path (member access path from this), node, fn}"""
    out = []
    from .ast import str_value, member_path
    for r in prog.base_chain(cls):
        for f in prog.methods_of(r):
            if not f.get('ctor'):
                continue
            for c in calls(f.body):
                if c.get('n') in ('register_var', 'register_vec') and c.get('rec', '').startswith('MASA::manufactured_solution<'):
                    nm = str_value(c['args'][0])
                    tgt = strip(c['args'][1], casts=True)
                    if c['n'] == 'register_var':
                        if tgt.get('k') == 'un' and tgt['op'] == '&':
                            path = member_path(tgt['e'])
                        else:
                            path = None
                    else:
                        path = member_path(tgt)
                    out.append({'kind': 'var' if c['n'] == 'register_var' else 'vec', 'name': nm, 'path': path, 'node': c, 'fn': f})
    return out
