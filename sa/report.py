"""Obligation bookkeeping, known findings, evidence and exit codes (DESIGN 1.5)."""
import json
import os
import re
import sys
import time

VERIF = os.path.dirname(os.path.dirname(os.path.abspath(__file__)))
KNOWN = os.path.join(VERIF, 'known_findings.txt')


class AnalysisBroken(Exception):
    pass


def load_known():
    known, fixed = [], []
    if os.path.exists(KNOWN):
        for line in open(KNOWN):
            line = line.strip()
            if not line or line.startswith('#'):
                continue
            m = re.match(r'known:\s+property=(\S+)\s+rule=(\S+)\s+key=(\S+)\s*(.*)$', line)
            if m:
                known.append({'property': m.group(1), 'rule': m.group(2), 'key': m.group(3), 'text': m.group(4)})
                continue
            m = re.match(r'fixed:\s+property=(\S+)\s+(\S+)\s+(.*)$', line)
            if m:
                fixed.append({'property': m.group(1), 'commit': m.group(2), 'text': m.group(3)})
    return known, fixed


class Ctx:
    def __init__(self, pid, tier, level='other', only=None):
        self.pid = pid
        self.tier = tier
        self.level = level
        self.t0 = time.time()
        self.obligations = 0
        self.discharged = 0
        self.nontrivial = set()
        self.samples = []
        self.violations = []      # dicts
        self.rules = {}           # rule id -> text
        self.rule_counts = {}     # rule id -> [obligations, discharged]
        self.analysed = {}
        self.notes = []
        self.inconclusive = []
        self.assumptions = []
        self.trusted = []
        self.explanation = ''
        self.only = only          # (rule,key) when replaying
        self.info = []
        self.selftests = []

    # ------------------------------------------------------------------
    def rule(self, rid, text):
        self.rules[rid] = text
        self.rule_counts.setdefault(rid, [0, 0])

    def ob(self, rule, key, ok, where='', msg='', nontrivial=True, sample=None):
        """one obligation = one rule instance.  ok=True discharged, False violation,
        None inconclusive (counted as not discharged but never a violation)."""
        self.obligations += 1
        rc = self.rule_counts.setdefault(rule, [0, 0])
        rc[0] += 1
        if ok:
            self.discharged += 1
            rc[1] += 1
            if nontrivial:
                self.nontrivial.add((rule, str(key)))
            if sample is not None and sum(1 for s in self.samples if s.get('rule') == rule) < 3:
                self.samples.append({'rule': rule, 'instance': str(key), 'where': where, 'what': sample})
        elif ok is None:
            self.inconclusive.append({'rule': rule, 'key': str(key), 'where': where, 'msg': msg})
        else:
            self.violations.append({'rule': rule, 'key': str(key), 'where': where, 'msg': msg})
        return ok

    def note(self, s):
        self.notes.append(s)

    def floor(self, what, n, minimum):
        """instance floor: a rule that matches fewer sites than confirmed by hand is
        analysis-broken, never a pass"""
        self.analysed[what] = n
        if n < minimum:
            # sites that a violation found earlier made unreachable for this rule do not turn the violation into "analysis
            # broken": the floor failure is kept and raised at the end only if nothing was reported
            if self.violations:
                self.deferred_floors = getattr(self, 'deferred_floors', []) + ['%s: %d < %d' % (what, n, minimum)]
                return
            raise AnalysisBroken('%s: instance floor not met for %s: %d < %d' % (self.pid, what, n, minimum))

    def require(self, cond, msg):
        if not cond:
            raise AnalysisBroken('%s: %s' % (self.pid, msg))

    # ------------------------------------------------------------------
    def finish(self, checker_cmd):
        known, fixed = load_known()
        kn = {(k['rule'], k['key']): k for k in known if k['property'] == self.pid}
        new, listed = [], []
        for v in self.violations:
            k = kn.get((v['rule'], v['key']))
            (listed if k else new).append(v)
        # a known finding counts as discharged-by-triage for bookkeeping but is reported
        OUT = os.environ.get('VCHECK_OUT', VERIF)   # self-tests on seeded copies write their reports elsewhere
        rep_dir = os.path.join(OUT, 'reports', self.pid)
        os.makedirs(rep_dir, exist_ok=True)
        for f in os.listdir(rep_dir):
            if f.endswith('.json'):
                os.unlink(os.path.join(rep_dir, f))
        for v in listed:
            print('KNOWN-FINDING: property=%s rule=%s key=%s %s: %s' % (self.pid, v['rule'], v['key'], v['where'], v['msg']))
        for i, v in enumerate(new):
            path = os.path.join(rep_dir, '%d.json' % i)
            with open(path, 'w') as f:
                json.dump({'property': self.pid, 'rule': v['rule'], 'key': v['key'], 'where': v['where'],
                           'msg': v['msg'], 'rule_text': self.rules.get(v['rule'], '')}, f, indent=1)
            print('%s [%s] %s: %s' % (v['where'], v['rule'], v['key'], v['msg']))
            print('VIOLATION property=%s replay=%s' % (self.pid, path))
        for x in self.inconclusive[:20]:
            print('inconclusive: [%s] %s %s %s' % (x['rule'], x['key'], x['where'], x['msg']))
        wall = time.time() - self.t0
        cov = {
            'obligations': self.obligations,
            'discharged': self.discharged,
            'known_findings': len(listed),
            'inconclusive': len(self.inconclusive),
            'evaluations': self.obligations,
            'distinct_nontrivial': len(self.nontrivial),
            'rule': 'one evaluation = one rule instance (rule id x analysed construct) enumerated from the clang IR of '
                    '/repo working tree; non-trivial = the instance has a construct to inspect and was discharged by '
                    'analysis rather than by an exception-table entry; distinct by (rule, instance key)',
            'rules': self.rules,
            'per_rule': {k: {'instances': v[0], 'discharged': v[1]} for k, v in self.rule_counts.items()},
            'samples': self.samples[:40] or [{'note': 'no discharged instance'}],
            'checker_cmd': checker_cmd,
            'trusted_base': self.trusted or ['clang 14 front end (parsing, overload resolution, template instantiation)',
                                             'tools/masa-ir extractor', 'sa/*.py rule implementations'],
            'explanation': self.explanation,
            'analysed': self.analysed,
            'exhaustive': True,
            'notes': self.notes,
            'selftests': self.selftests,
        }
        ev = {
            'property_id': self.pid,
            'tier': self.tier,
            'seed': int(os.environ.get('VERIF_SEED', '0') or 0),
            'level': self.level,
            'coverage': cov,
            'assumptions': self.assumptions,
            'wall_s': round(wall, 3),
            'violations': len(new),
        }
        os.makedirs(os.path.join(OUT, 'evidence'), exist_ok=True)
        with open(os.path.join(OUT, 'evidence', self.pid + '.json'), 'w') as f:
            json.dump(ev, f, indent=1, sort_keys=True)
        print('%s tier=%s: %d obligations, %d discharged, %d known, %d inconclusive, %d violations (%.1fs)' % (
            self.pid, self.tier, self.obligations, self.discharged, len(listed), len(self.inconclusive), len(new), wall))
        return 1 if new else 0
