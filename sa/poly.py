"""Canonical polynomial normal form with full distribution (value numbering with
the commutative-ring axioms plus the single rewrite sin(a)^2 -> 1 - cos(a)^2).

Used to decide *equality* of two expression trees for all values of their
symbols: the source term as written in the code versus the residual operator
applied (by a table-driven derivative) to the exact fields.  Nothing is
evaluated numerically and nothing is searched: both sides are rewritten to the
same canonical representation and compared.

poly  = {mono: Fraction};  mono = tuple(sorted((atom, int exp)))
atom  = ('sym', name)                         exponent may be negative (Laurent)
      | ('sin', C) | ('cos', C)               C = canon(poly) of the argument
      | ('fn', name, (C, ...))                any other library function, opaque
      | ('inv', C)                            reciprocal of a multi-term sum, C normalised (leading coeff 1)
      | ('app', Cf, (C, ...))                 call through a function pointer
Soundness of EQUAL: identical canonical forms denote identical functions.
Completeness (DIFFERENT is definite) holds when the arguments of distinct
sin/cos atoms are algebraically independent and opaque fn atoms do not satisfy
identities among themselves; callers state which case they are in.
"""
from fractions import Fraction

MAX_TERMS = 400000
# jet variables: symbols NAME, NAME_x, NAME_xy ... standing for an unspecified smooth field and its partial
# derivatives; d/dx NAME_s = NAME_{sorted(s+x)}.  Set by callers around a computation (see sa/checks/c03.py).
JETS = set()
JET_COORDS = ()
# derived symbols: SYM_RULES[(symbol, coordinate)] = polynomial of d symbol / d coordinate (set by callers; the rule itself
# must be justified separately, e.g. by the monomial-degree analysis of sa/checks/c05.py)
SYM_RULES = {}


class TooBig(Exception):
    pass


def key(m):
    return repr(m)


def canon(p):
    return tuple(sorted(p.items(), key=lambda mc: repr(mc[0])))


def uncanon(c):
    return dict(c)


def const(v):
    v = Fraction(v)
    return {(): v} if v else {}


def sym(name, e=1):
    return {((('sym', name), e),): Fraction(1)}


def atom(a, e=1):
    return {((a, e),): Fraction(1)}


def add(p, q, scale=1):
    r = dict(p)
    for m, c in q.items():
        v = r.get(m, 0) + c * scale
        if v:
            r[m] = v
        else:
            r.pop(m, None)
    return r


def neg(p):
    return {m: -c for m, c in p.items()}


def scale(p, s):
    s = Fraction(s)
    return {m: c * s for m, c in p.items()} if s else {}


def mono_mul(a, b):
    if not a:
        return b
    if not b:
        return a
    d = dict(a)
    for at, e in b:
        v = d.get(at, 0) + e
        if v:
            d[at] = v
        else:
            d.pop(at, None)
    return tuple(sorted(d.items(), key=lambda ae: repr(ae[0])))


def mul(p, q):
    if len(p) * len(q) > MAX_TERMS * 4:
        raise TooBig('%d x %d' % (len(p), len(q)))
    r = {}
    for m1, c1 in p.items():
        for m2, c2 in q.items():
            m = mono_mul(m1, m2)
            v = r.get(m, 0) + c1 * c2
            if v:
                r[m] = v
            else:
                r.pop(m, None)
    if len(r) > MAX_TERMS:
        raise TooBig(str(len(r)))
    return r


def ipow(p, n):
    if n == 0:
        return const(1)
    if n < 0:
        return ipow(inverse(p), -n)
    r = const(1)
    b = p
    while n:
        if n & 1:
            r = mul(r, b)
        n >>= 1
        if n:
            b = mul(b, b)
    return r


def inverse(p):
    """1/p"""
    if not p:
        raise ZeroDivisionError('division by the zero polynomial')
    if len(p) == 1:
        (m, c), = p.items()
        if all(a[0] in ('sym', 'inv', 'fn', 'app', 'sin', 'cos') for a, e in m):
            ok = all(a[0] == 'sym' or a[0] == 'fn' for a, e in m)
            if ok:
                return {tuple((a, -e) for a, e in m): 1 / c}
    # multi-term (or trig single term): opaque reciprocal, normalised so that k*S and S share the atom
    p = reduce_trig(p)
    if len(p) == 1:
        (m, c), = p.items()
        if all(a[0] in ('sym', 'fn') for a, e in m):
            return {tuple((a, -e) for a, e in m): 1 / c}
    c0 = canon(p)
    lead = c0[0][1]
    norm = canon(scale(p, 1 / lead))
    return {((('inv', norm), 1),): 1 / lead}


# --------------------------------------------------------------------------
def reduce_sqrt(p):
    """sqrt(A)^e with |e| >= 2 -> A^(e div 2) * sqrt(A)^(e mod 2)   (A > 0 assumed, as the code does)"""
    r = {}
    hit_any = False
    for m, c in p.items():
        hit = None
        for i, (a, e) in enumerate(m):
            if a[0] == 'fn' and a[1] == 'sqrt' and (e >= 2 or e <= -2):
                hit = i
                break
        if hit is None:
            r = add(r, {m: c})
            continue
        hit_any = True
        a, e = m[hit]
        rest = m[:hit] + m[hit + 1:]
        q, rem = (e // 2, e % 2) if e > 0 else (-((-e) // 2), -((-e) % 2))
        if rem:
            rest = mono_mul(rest, ((a, rem),))
        r = add(r, mul({rest: c}, ipow(uncanon(a[2][0]), q)))
    return reduce_sqrt(r) if hit_any else r


def reduce_trig(p):
    """rewrite sin(a)^k (k>=2) with sin^2 = 1 - cos^2; cancels inv(S)*... is NOT done here"""
    p = reduce_sqrt(p)
    changed = True
    while changed:
        changed = False
        r = {}
        for m, c in p.items():
            hit = None
            for i, (a, e) in enumerate(m):
                if a[0] == 'sin' and e >= 2:
                    hit = i
                    break
            if hit is None:
                v = r.get(m, 0) + c
                if v:
                    r[m] = v
                else:
                    r.pop(m, None)
                continue
            changed = True
            a, e = m[hit]
            rest = m[:hit] + m[hit + 1:]
            if e % 2:
                rest = mono_mul(rest, ((a, 1),))
            one_minus = {(): Fraction(1), ((('cos', a[1]), 2),): Fraction(-1)}
            fac = ipow(one_minus, e // 2)
            for m2, c2 in fac.items():
                mm = mono_mul(rest, m2)
                v = r.get(mm, 0) + c * c2
                if v:
                    r[mm] = v
                else:
                    r.pop(mm, None)
        p = r
    return p


def clear_inverses(p):
    """multiply p by the needed powers of every ('inv', S) base so that no inv atom remains.
    p == 0 as a function  <=>  result == 0 (S is not identically zero)."""
    for _ in range(12):
        invs = {}
        for m in p:
            for a, e in m:
                if a[0] == 'inv':
                    invs[a] = max(invs.get(a, 0), e)
        if not invs:
            return p
        a = sorted(invs, key=repr)[0]
        k = invs[a]
        S = uncanon(a[1])
        pows = {0: const(1)}
        for i in range(1, k + 1):
            pows[i] = mul(pows[i - 1], S)
        r = {}
        for m, c in p.items():
            j = 0
            rest = []
            for at, e in m:
                if at == a:
                    j = e
                else:
                    rest.append((at, e))
            if j < 0:
                # S^|j| explicit as an inverse with negative exponent cannot occur
                raise TooBig('negative inv exponent')
            r = add(r, mul({tuple(rest): c}, pows[k - j]))
        p = reduce_trig(r)
    raise TooBig('nested reciprocals')


def clear_negative_sqrt(p):
    """multiply p by sqrt(A)^k for every radical that occurs with a negative exponent (sqrt(A) is not identically zero), then
    fold sqrt(A)^2 = A: decides a/sqrt(A) + b sqrt(A) == 0"""
    for _ in range(8):
        neg = {}
        for m in p:
            for a, e in m:
                if a[0] == 'fn' and a[1] == 'sqrt' and e < 0:
                    neg[a] = min(neg.get(a, 0), e)
        if not neg:
            return p
        a = sorted(neg, key=repr)[0]
        p = reduce_sqrt(mul(p, {((a, -neg[a]),): Fraction(1)}))
    return p


def witness(p):
    """canonical numerator of p: empty iff p == 0 (polynomials in independent atoms)"""
    p = reduce_trig(p)
    if not p:
        return p
    p = clear_inverses(p)
    p = reduce_trig(p)
    if p and any(a[0] == 'fn' and a[1] == 'sqrt' and e < 0 for m in p for a, e in m):
        p = reduce_trig(clear_negative_sqrt(p))
    return p


def is_zero(p):
    """decides p == 0 for polynomials in independent atoms"""
    return not witness(p)


def equal(p, q):
    return is_zero(add(p, q, -1))


def merge_equal_atoms(p, _reps=None):
    """Rewrites function atoms whose arguments are equal as rational functions (but were built differently, e.g. the radicand
    (1-K) s^2 with K = n s^2/(d + n s^2) and the radicand 1/(1/s^2 + n/d)) to one representative, so that the polynomial
    arithmetic sees them as the same atom.  Equality of arguments is decided by the witness (cross-multiplication)."""
    reps = _reps if _reps is not None else {}

    def rw_atom(a):
        if a[0] == 'fn':
            args = tuple(canon(merge_equal_atoms(uncanon(x), reps)) if isinstance(x, tuple) and x and isinstance(x[0], tuple) else x for x in a[2])
            a2 = ('fn', a[1], args)
            cls = reps.setdefault((a[1], len(args)), [])
            for r in cls:
                if r == a2:
                    return r
                try:
                    if all((x == y) or (isinstance(x, tuple) and x and isinstance(x[0], tuple) and isinstance(y, tuple) and y and isinstance(y[0], tuple) and equal(uncanon(x), uncanon(y)))
                           for x, y in zip(r[2], args)):
                        return r
                except (TooBig, NoRule, ZeroDivisionError, ValueError):
                    continue
            cls.append(a2)
            return a2
        if a[0] in ('sin', 'cos', 'inv'):
            return (a[0], canon(merge_equal_atoms(uncanon(a[1]), reps)))
        return a
    out = {}
    for m, c in p.items():
        term = const(c)
        for a, e in m:
            a2 = rw_atom(a)
            term = mul(term, {((a2, e),): Fraction(1)})
        out = add(out, term)
    return out


def sqrt_of(a):
    """sqrt(a) with even powers of the positive constant pi (and rational squares) taken out of the radicand"""
    a = reduce_trig(a)
    if not a:
        return {}
    PI = ('sym', 'pi')
    emin = None
    for m in a:
        e = dict(m).get(PI, 0)
        emin = e if emin is None else min(emin, e)
    k = (emin // 2) if emin >= 0 else -((-emin) // 2)
    out = const(1)
    if k:
        a = mul(a, sym('pi', -2 * k))
        out = sym('pi', k)
    return mul(out, atom(('fn', 'sqrt', (canon(a),))))


# --------------------------------------------------------------------------
# terms -> poly
# --------------------------------------------------------------------------
def from_term(t, env=None):
    """env: optional {sym name: poly} substitution"""
    k = t[0]
    if k == 'num':
        return const(t[1])
    if k == 'sym':
        if env and t[1] in env:
            return env[t[1]]
        return sym(t[1])
    if k == 'add':
        r = {}
        for x in t[1]:
            r = add(r, from_term(x, env))
        return r
    if k == 'neg':
        return neg(from_term(t[1], env))
    if k == 'mul':
        r = const(1)
        for x in t[1]:
            r = mul(r, from_term(x, env))
        return r
    if k == 'div':
        return mul(from_term(t[1], env), inverse(from_term(t[2], env)))
    if k == 'call':
        name, args = t[1], t[2]
        if name == 'pow' and len(args) == 2:
            e = from_term(args[1], env)
            if not e:
                return const(1)
            if len(e) == 1 and () in e and e[()].denominator == 1:
                return ipow(from_term(args[0], env), int(e[()]))
            if len(e) > 1 and () in e and e[()].denominator == 1:
                # pow(b, s + k) = pow(b, s) * b^k  (k integer literal)
                k_ = int(e[()])
                rest = dict(e)
                del rest[()]
                b = from_term(args[0], env)
                return mul(atom(('fn', 'pow', (canon(reduce_trig(b)), canon(rest)))), ipow(b, k_))
            if len(e) == 1 and () in e and e[()].denominator == 2:
                # half-integer power: sqrt(base)^(2k+1)
                b = from_term(args[0], env)
                n2 = int(e[()] * 2)
                return ipow(atom(('fn', 'sqrt', (canon(reduce_trig(b)),))), n2)
        if name in ('sin', 'cos') and len(args) == 1:
            a = reduce_trig(from_term(args[0], env))
            if not a:
                return const(0 if name == 'sin' else 1)
            # odd/even symmetry: make the argument's leading coefficient positive
            c0 = canon(a)
            if c0[0][1] < 0:
                a = neg(a)
                s = -1 if name == 'sin' else 1
            else:
                s = 1
            return scale(atom((name, canon(a))), s)
        if name in ('intdiv', 'mod') and len(args) == 2:
            a, b = from_term(args[0], env), from_term(args[1], env)
            if all(len(q) <= 1 and (not q or () in q) for q in (a, b)) and b:
                x, y = a.get((), Fraction(0)), b[()]
                if x.denominator == 1 and y.denominator == 1:
                    return const(int(x) // int(y) if name == 'intdiv' else int(x) % int(y))
        if name == 'trunc' and len(args) == 1:
            a = from_term(args[0], env)
            if len(a) <= 1 and (not a or () in a):
                return const(int(a.get((), 0)))
        if name in ('loop', 'loopvar', 'elemstore') or name.startswith('container:'):
            return atom(('fn', name, tuple(canon(from_term(x, env)) if x[0] not in ('unk',) else canon(sym('?unk')) for x in args)))
        if name == 'sqrt' and len(args) == 1:
            return sqrt_of(from_term(args[0], env))
        if name in ('log', 'exp') and len(args) == 1:
            # log(exp(A)) = A for every real A; exp(log(A)) = A for A > 0 (the code takes the logarithm, so it assumes that too)
            inner = reduce_trig(from_term(args[0], env))
            other = 'exp' if name == 'log' else 'log'
            if len(inner) == 1:
                (m_, c_), = inner.items()
                if c_ == 1 and len(m_) == 1 and m_[0][1] == 1 and m_[0][0][0] == 'fn' and m_[0][0][1] == other and len(m_[0][0][2]) == 1:
                    return uncanon(m_[0][0][2][0])
            return atom(('fn', name, (canon(inner),)))
        return atom(('fn', name, tuple(canon(reduce_trig(from_term(a, env))) for a in args)))
    if k == 'apply':
        return atom(('app', canon(from_term(t[1], env)), tuple(canon(reduce_trig(from_term(a, env))) for a in t[2])))
    if k == 'size':
        return atom(('fn', 'size', (canon(from_term(t[1], env)),)))
    if k == 'elem':
        return atom(('fn', 'elem', (canon(from_term(t[1], env)), canon(from_term(t[2], env)))))
    raise ValueError('term outside the polynomial subset: %r' % (t[:2],))


# --------------------------------------------------------------------------
# table-driven derivative
# --------------------------------------------------------------------------
class NoRule(Exception):
    pass


def depends(p, x):
    for m in p:
        for a, e in m:
            if atom_depends(a, x):
                return True
    return False


def jet_base(name):
    if name in JETS:
        return name, ''
    i = name.rfind('_')
    if i > 0 and name[:i] in JETS and name[i + 1:] and all(c in JET_COORDS for c in name[i + 1:]):
        return name[:i], name[i + 1:]
    return None, None


def atom_depends(a, x):
    if a[0] == 'sym':
        if a[1] == x:
            return True
        if JETS and x in JET_COORDS and jet_base(a[1])[0] is not None:
            return True
        if (a[1], x) in SYM_RULES:
            return True
        return False
    if a[0] in ('sin', 'cos', 'inv'):
        return depends(uncanon(a[1]), x)
    if a[0] == 'fn':
        return any(depends(uncanon(c), x) for c in a[2])
    if a[0] == 'app':
        return any(depends(uncanon(c), x) for c in a[2])
    return False


def d_atom(a, x, fn_rules=None):
    if a[0] == 'sym':
        if a[1] == x:
            return const(1)
        if JETS and x in JET_COORDS:
            b, suf = jet_base(a[1])
            if b is not None:
                return sym(b + '_' + ''.join(sorted(suf + x)))
        if (a[1], x) in SYM_RULES:
            return SYM_RULES[(a[1], x)]
        return {}
    if not atom_depends(a, x):
        return {}
    if a[0] == 'sin':
        return mul(atom(('cos', a[1])), diff(uncanon(a[1]), x, fn_rules))
    if a[0] == 'cos':
        return neg(mul(atom(('sin', a[1])), diff(uncanon(a[1]), x, fn_rules)))
    if a[0] == 'inv':
        return neg(mul(atom(a, 2), diff(uncanon(a[1]), x, fn_rules)))
    if a[0] == 'fn':
        if a[1] == 'sqrt':
            # d sqrt(u) = u' / (2 sqrt(u))
            return scale(mul(atom(a, -1), diff(uncanon(a[2][0]), x, fn_rules)), Fraction(1, 2))
        if a[1] == 'exp':
            return mul(atom(a), diff(uncanon(a[2][0]), x, fn_rules))
        if a[1] == 'log':
            return mul(inverse(uncanon(a[2][0])), diff(uncanon(a[2][0]), x, fn_rules))
        if a[1] == 'pow' and len(a[2]) == 2 and not depends(uncanon(a[2][1]), x):
            # d u^b = b u^(b-1) u'  with u^(b-1) written as pow(u,b) * 1/u
            u = uncanon(a[2][0])
            return mul(mul(mul(uncanon(a[2][1]), atom(a)), inverse(u)), diff(u, x, fn_rules))
        if fn_rules and a[1] in fn_rules:
            return fn_rules[a[1]](a, x)
    raise NoRule('no derivative rule for %r' % (a[:2],))


def diff(p, x, fn_rules=None):
    r = {}
    for m, c in p.items():
        for i, (a, e) in enumerate(m):
            if not atom_depends(a, x):
                continue
            da = d_atom(a, x, fn_rules)
            rest = m[:i] + m[i + 1:]
            if e != 1:
                rest = mono_mul(rest, ((a, e - 1),))
                coef = c * e
            else:
                coef = c
            r = add(r, mul({rest: coef}, da))
    return r


# --------------------------------------------------------------------------
def fmt_atom(a):
    if a[0] == 'sym':
        return a[1]
    if a[0] in ('sin', 'cos'):
        return '%s(%s)' % (a[0], fmt(uncanon(a[1])))
    if a[0] == 'inv':
        return '1/(%s)' % fmt(uncanon(a[1]))
    if a[0] == 'fn':
        return '%s(%s)' % (a[1], ', '.join(fmt(uncanon(c)) for c in a[2]))
    if a[0] == 'app':
        return '%s(%s)' % (fmt(uncanon(a[1])), ', '.join(fmt(uncanon(c)) for c in a[2]))
    return '?'


def fmt(p, limit=5):
    items = sorted(p.items(), key=lambda mc: repr(mc[0]))
    out = []
    for m, c in items[:limit]:
        parts = [] if (c == 1 and m) else [str(c)]
        for a, e in m:
            s = fmt_atom(a)
            parts.append(s if e == 1 else '%s^%d' % (s, e))
        out.append('*'.join(parts))
    s = ' + '.join(out)
    if len(items) > limit:
        s += ' + ...(%d terms)' % len(items)
    return s or '0'


def syms_of(p):
    out = set()

    def walk_atom(a):
        if a[0] == 'sym':
            out.add(a[1])
        elif a[0] in ('sin', 'cos', 'inv'):
            for m in uncanon(a[1]):
                for b, e in m:
                    walk_atom(b)
        elif a[0] in ('fn', 'app'):
            cs = list(a[2]) + ([a[1]] if a[0] == 'app' else [])
            for c in cs:
                for m in uncanon(c):
                    for b, e in m:
                        walk_atom(b)
    for m in p:
        for a, e in m:
            walk_atom(a)
    return out
