"""C17 - the C interface is a faithful view of the <double> C++ API (DESIGN 2, C17).

Every extern "C" definition of src/cmasa.cpp is evaluated by forward
substitution with the MASA:: templates kept opaque (a call event with its
argument terms; output parameters of the template become opaque `out:` values).
What is compared is the wrapper's effect on each path - which template it
calls, with which argument terms, what it returns, what it writes through its
pointer parameters - so named temporaries, std::string copies, reordered
declarations and equivalent library idioms give the same verdict.
"""
import re
from .. import terms
from ..ast import strip, nodes
from ..ir import walk

LEVEL = 'other'

# C name -> C++ template name where they differ (frozen; confirmed on the pinned tree)
RENAME = {'masa_set_array': 'masa_set_vec', 'masa_get_array': 'masa_get_vec', 'masa_display_array': 'masa_display_vec'}
# wrappers that have no C++ counterpart call by design
SELF_CONTAINED = {'masa_test_default': 'documented purpose is to exit(); a literal copy of the template, solution independent'}
STATUS_FUNCS = ('masa_init_param', 'masa_sanity_check', 'masa_get_array')
CONVERTING = ('FloatingCast', 'FloatingToIntegral', 'IntegralToFloating', 'FloatingToBoolean')


def cxx_name(cname):
    m = re.match(r'masa_eval_(\d)d_(.*)$', cname)
    if m:
        return 'masa_eval_' + m.group(2), int(m.group(1))
    return RENAME.get(cname, cname), None


def wrapper_eval(prog, f):
    """(Evaluator, paths) of extern "C" wrapper f; MASA:: callees are opaque, their writable pointer / reference arguments
    become ('call', 'out:<callee>:<index>', ())"""
    # file-local helpers of cmasa.cpp are inlined; every MASA:: callee is intercepted by the hook below and stays opaque
    E = terms.Evaluator(prog, noreturn=())

    def hook(ev, e, n, obj, args_e, P, fr):
        q = e.get('q') or ''
        if not q.startswith('MASA::') or not e.get('inrepo'):
            return None
        callee = prog.by_q.get(q, [])
        args = tuple(ev.E(a, P, fr) for a in args_e)
        P.events.append(('call', (q, args, None, e.get('sig'), False), e.get('l')))
        ptypes = [p['t'] for p in callee[0].params] if len(callee) == 1 else []
        for i, a in enumerate(args_e):
            t = ptypes[i] if i < len(ptypes) else ''
            out = None
            a0 = strip(a, casts=True)
            if t.endswith('*') and not t.startswith('const ') and a0.get('k') == 'un' and a0['op'] == '&':
                out = a0['e']
            elif t.endswith('&') and not t.startswith('const ') and not t.endswith('&&'):
                out = a
            if out is not None:
                ev.assign(out, ('call', 'out:%s:%d' % (n, i), ()), P, fr, e.get('l'))
        return ('call', 'repo:' + n, args)
    E.call_hook = hook
    outs = E.run(f)
    return E, list(outs) + [p for p in E.trace.exit_paths if p not in outs]


def flat(events):
    out = []
    for e in events:
        if e[0] == 'branch':
            for k_, c_, sub in e[1][1]:
                out.extend(flat(sub))
        else:
            out.append(e)
    return out


def param_term(f, i, t):
    """is term t parameter i of f passed on unchanged (a function pointer may be written f or *f)"""
    n = f.params[i]['n']
    if t == ('sym', n):
        return True
    if '(*)' in f.params[i]['t'] and t in (('sym', n + '*'), ('deref', ('sym', n))):
        return True
    return False


def untrunc(t):
    while t[0] == 'call' and t[1] == 'trunc' and len(t[2]) == 1:
        t = t[2][0]
    return t


def ptr_off(t):
    """pointer term -> (base term, offset term)"""
    if t[0] == 'addr' and t[1][0] == 'elem':
        return t[1][1], t[1][2]
    if t[0] == 'add' and len(t[1]) == 2:
        return t[1][0], t[1][1]
    return t, terms.num(0)


def run(ctx, prog):
    ctx.rule('C17.R1', 'evaluator wrapper masa_eval_<n>d_<kind>_<X>: one path, whose only effect is one call MASA::masa_eval_<kind>_<X><double>(parameters in order, unconverted) and which returns that value; '
             'n equals the number of double parameters')
    ctx.rule('C17.R2', 'data movers forward name and value unchanged; masa_set_array builds the vector from exactly [val, val+*n); '
             'masa_get_array stores vec.size() to *n and copies every element in index order')
    ctx.rule('C17.R3', 'the int returned by masa_init_param / masa_sanity_check / masa_get_array is the value the C++ callee returned on every path')
    ctx.rule('C17.R4', "masa_get_name copies the whole string filled by MASA::masa_get_name<double> (all its characters and the terminator) into the caller's buffer, and never reads the buffer first")
    ctx.rule('C17.R5', 'every MASA:: template called from an extern "C" function is the <double> instantiation and is the same-named entry point')
    ctx.rule('C17.R6', 'non-evaluator wrappers call their C++ counterpart exactly once on every path with their parameters passed through in order')
    ctx.explanation = ('Each extern "C" definition in cmasa.cpp is evaluated path by path with the C++ templates opaque. The wrappers contain no arithmetic, so '
                       'equality of the argument terms with the parameters and of the returned term with the callee\'s value implies bit-identical results for every argument and every registry state.')

    tu = 'cmasa.cpp'
    ctx.require(tu in prog.fn_by_tu, 'src/cmasa.cpp not analysed')
    wrappers = [f for f in prog.fn_by_tu[tu] if f.get('externc') and f.where.startswith('src/cmasa.cpp')]
    ctx.floor('extern_C_definitions', len(wrappers), 95)
    n_eval = 0
    seen_status = set()
    for f in wrappers:
        name = f.n
        cxx, ndim = cxx_name(name)
        want_q = 'MASA::%s<double>' % cxx
        E, paths = wrapper_eval(prog, f)
        per_path = [(o, flat(o.events)) for o in paths]
        all_calls = [e for o, evs in per_path for e in evs if e[0] == 'call']
        # ---- R5: double instantiation, same-named entry point
        if name in SELF_CONTAINED:
            ctx.ob('C17.R5', name, len(all_calls) == 0, f.where, 'self-contained wrapper now calls into MASA::', nontrivial=False)
            continue
        bad = sorted(set(e[1][0] for e in all_calls if e[1][0] != want_q))
        ctx.ob('C17.R5', name, not bad and len(all_calls) >= 1, f.where,
               'calls %s, expected exactly %s' % (bad or 'nothing', want_q), sample='%s -> %s' % (name, want_q))
        if bad or not all_calls:
            continue
        ret_paths = [(o, evs) for o, evs in per_path if o.kind != 'exit']
        conv = [n for n in nodes(f.body, 'cast') if n.get('ck') in CONVERTING]
        if ndim is not None:
            n_eval += 1
            # ---- R1
            ok, why = True, ''
            if len(paths) != 1 or len(ret_paths) != 1:
                ok, why = False, 'has %d paths (%d returning), expected one' % (len(paths), len(ret_paths))
            if ok:
                o, evs = ret_paths[0]
                cs = [e for e in evs if e[0] == 'call']
                other = [e for e in evs if e[0] in ('libcall', 'write', 'write-through', 'store', 'print', 'new', 'delete', 'loop')]
                nd = sum(1 for p in f.params if p['t'] == 'double')
                if len(cs) != 1:
                    ok, why = False, 'calls the C++ entry point %d times' % len(cs)
                elif other:
                    ok, why = False, 'has another effect (%s at %s)' % (other[0][0], other[0][2])
                elif nd != ndim:
                    ok, why = False, 'name says %dd but the wrapper takes %d double coordinates' % (ndim, nd)
                elif len(cs[0][1][1]) != len(f.params):
                    ok, why = False, 'callee receives %d arguments, wrapper has %d parameters' % (len(cs[0][1][1]), len(f.params))
                else:
                    for i, a in enumerate(cs[0][1][1]):
                        if not param_term(f, i, a):
                            ok, why = False, 'argument %d is `%s`, expected parameter %s unchanged' % (i + 1, terms.fmt(a)[:50], f.params[i]['n'])
                            break
                    if ok and o.ret != ('call', 'repo:' + cxx, cs[0][1][1]):
                        ok, why = False, 'returns `%s`, not the value of the C++ call' % (terms.fmt(o.ret)[:50] if o.ret else None)
                    elif ok and f.ret != 'double':
                        ok, why = False, 'returns %s' % f.ret
                    elif ok and conv:
                        ok, why = False, 'a conversion (%s at %s) occurs inside the wrapper' % (conv[0]['ck'], conv[0].get('l'))
            ctx.ob('C17.R1', name, ok, f.where, why, sample='%s(%s) = return %s(params)' % (name, ', '.join(p['t'] for p in f.params), want_q))
            continue
        # ---- non-evaluator wrappers: R6 exactly one call per path, parameters passed through
        ok, why = True, ''
        call = None
        for o, evs in ret_paths:
            cs = [e for e in evs if e[0] == 'call']
            if len(cs) != 1:
                ok, why = False, 'C++ counterpart called %d times on a path' % len(cs)
                break
            call = cs[0]
            args = call[1][1]
            if name in ('masa_set_array', 'masa_get_array'):
                if not (len(args) == 2 and param_term(f, 0, args[0])):
                    ok, why = False, 'name argument is `%s`, expected parameter `%s`' % (terms.fmt(args[0])[:50] if args else None, f.params[0]['n'])
            elif name == 'masa_get_name':
                pass        # shape decided by R4
            elif len(args) != len(f.params):
                ok, why = False, 'callee receives %d arguments, wrapper has %d parameters' % (len(args), len(f.params))
            else:
                for i, a in enumerate(args):
                    if not param_term(f, i, a):
                        ok, why = False, 'argument %d is `%s`, expected parameter `%s` unchanged' % (i + 1, terms.fmt(a)[:50], f.params[i]['n'])
                        break
            if not ok:
                break
        if ok and not ret_paths:
            ok, why = False, 'no returning path'
        ctx.ob('C17.R6', name, ok, f.where, why, sample='%s -> %s(params)' % (name, want_q))
        # ---- R2 data movers
        if name == 'masa_set_array':
            ok2, why2 = check_set_array(f, ret_paths)
            ctx.ob('C17.R2', name, ok2, f.where, why2, sample='vector built from [val, val+*n)')
        elif name == 'masa_get_array':
            ok2, why2 = check_get_array(f, ret_paths)
            ctx.ob('C17.R2', name, ok2, f.where, why2, sample='*n = vec.size(); array[i] = vec[i] for i in [0,size)')
        elif name in ('masa_set_param', 'masa_get_param'):
            ok2, why2 = ok, why
            if ok2 and conv:
                ok2, why2 = False, 'a conversion (%s) occurs inside the wrapper' % conv[0]['ck']
            if ok2 and name == 'masa_get_param':
                for o, evs in ret_paths:
                    c0 = [e for e in evs if e[0] == 'call'][0]
                    if o.ret != ('call', 'repo:' + cxx, c0[1][1]):
                        ok2, why2 = False, 'returns `%s`, not the value of the C++ call' % (terms.fmt(o.ret)[:50] if o.ret else None)
            ctx.ob('C17.R2', name, ok2, f.where, why2, sample='%s forwards its arguments and result unchanged' % name)
        # ---- R3
        if name in STATUS_FUNCS:
            seen_status.add(name)
            ok3, why3 = status_forwarded(f, ret_paths, cxx)
            ctx.ob('C17.R3', name, ok3, f.where, why3, sample='returns the value of %s' % want_q)
        # ---- R4
        if name == 'masa_get_name':
            ok4, why4 = check_get_name(f, ret_paths)
            ctx.ob('C17.R4', name, ok4, f.where, why4, sample='buffer written from the string filled by the C++ call')
    ctx.floor('evaluator_wrappers', n_eval, 78)
    ctx.require(seen_status == set(STATUS_FUNCS), 'status wrappers not found: %s' % (set(STATUS_FUNCS) - seen_status))
    ctx.require(any(f.n == 'masa_get_name' for f in wrappers), 'masa_get_name wrapper not found')
    ctx.analysed['translation_unit'] = 'src/cmasa.cpp'


def check_set_array(f, ret_paths):
    """the vector handed to masa_set_vec is built from exactly [val, val + *n)"""
    if len(f.params) != 3:
        return False, 'unexpected parameter list'
    nname, vname = f.params[1]['n'], f.params[2]['n']
    count = (('sym', nname + '*'), ('deref', ('sym', nname)))
    for o, evs in ret_paths:
        cs = [e for e in evs if e[0] == 'call']
        if len(cs) != 1 or len(cs[0][1][1]) != 2:
            return False, 'masa_set_vec is not called exactly once with (name, vector)'
        v = cs[0][1][1][1]
        lo = hi = None
        if v[0] == 'call' and v[1] == 'vec_range':
            lo, hi = v[2]
        elif v[0] == 'call' and v[1] == 'container:assign' and len(v[2]) == 3:
            lo, hi = v[2][1], v[2][2]
        elif v[0] == 'call' and v[1] in ('container:insert',) and len(v[2]) == 4:
            lo, hi = v[2][2], v[2][3]
        if lo is None:
            # push_back loops and other constructions are outside the recognised idioms
            return None, 'the vector is built as `%s`: idiom not recognised, not decided' % terms.fmt(v)[:60]
        (lb, lo_off), (hb, hi_off) = ptr_off(lo), ptr_off(hi)
        if lb != ('sym', vname) or hb != ('sym', vname):
            return False, 'the range [%s, %s) is not taken from the parameter %s' % (terms.fmt(lo)[:30], terms.fmt(hi)[:30], vname)
        if lo_off != terms.num(0):
            return False, 'range does not start at %s[0]: `%s`' % (vname, terms.fmt(lo)[:40])
        if untrunc(hi_off) not in count:
            return False, 'range does not end at %s[*%s]: `%s`' % (vname, nname, terms.fmt(hi)[:40])
    return True, ''


def check_get_array(f, ret_paths):
    """*n = size of the vector filled by masa_get_vec; array[i] = vec[i] for every i in [0, size)"""
    if len(f.params) != 3:
        return False, 'unexpected parameter list'
    nname, aname = f.params[1]['n'], f.params[2]['n']
    undecided = None
    for o, evs in ret_paths:
        ci = [i for i, e in enumerate(evs) if e[0] == 'call']
        if len(ci) != 1:
            return False, 'masa_get_vec is not called exactly once'
        V = ('call', 'out:masa_get_vec:1', ())
        after = evs[ci[0] + 1:]
        before = evs[:ci[0]]
        if any(e[0] in ('write-through', 'libcall', 'loop') for e in before):
            return False, 'the output parameters are touched before the C++ call'
        size_t = ('size', V)
        st_n = [e for e in after if e[0] == 'write-through' and e[1] == ('sym', nname)]
        if not (st_n and len(st_n[-1]) > 3 and untrunc(st_n[-1][3]) == size_t):
            return False, 'vec.size() is not stored to *%s' % nname
        copied = False
        for e in after:
            if e[0] == 'libcall' and e[1][0] in ('copy',) and len(e[1][1]) == 3:
                a, b, d = e[1][1]
                if a == ('mcall', V, 'begin', ()) and b == ('mcall', V, 'end', ()) and d == ('sym', aname):
                    copied = True
                elif d == ('sym', aname):
                    return False, 'std::copy into the array does not take the whole vector'
            if e[0] == 'libcall' and e[1][0] == 'copy_n' and len(e[1][1]) == 3:
                a, n_, d = e[1][1]
                if a == ('mcall', V, 'begin', ()) and untrunc(n_) == size_t and d == ('sym', aname):
                    copied = True
            if e[0] == 'libcall' and e[1][0] in ('memcpy', 'memmove') and e[1][1] and e[1][1][0] == ('sym', aname):
                undecided = 'the elements are copied with %s: byte count not decided' % e[1][0]
            if e[0] == 'loop' and e[1][0] is not None and e[1][0][0] == 'call' and e[1][0][1] == 'op:operator!=':
                # iterator over the vector and a pointer walking the array in step: for (it = V.begin(); it != V.end(); ++it) *out++ = *it
                c = e[1][0]
                itv, endv = c[2]
                whole = itv[0] == 'call' and itv[1] == 'loopvar' and itv[2][0] == ('mcall', V, 'begin', ()) and endv == ('mcall', V, 'end', ())
                for kind, conds, sub in e[1][1]:
                    wr = [x for x in sub if x[0] == 'write-through']
                    if not wr:
                        continue
                    dl = {x[1][0]: x[1][1] for x in sub if x[0] == 'delta'}
                    tgt = wr[0][1]
                    outv = tgt if (tgt[0] == 'call' and tgt[1] == 'loopvar' and tgt[2][0] == ('sym', aname)) else None
                    good = whole and len(wr) == 1 and not conds and kind in ('fall', 'cont') and outv is not None and len(wr[0]) > 3 and \
                        wr[0][3] == ('call', 'op:operator*', (itv,)) and \
                        any(v_ == ('add', (outv, terms.num(1))) for v_ in dl.values()) and any(v_ == ('call', 'op:operator++', (itv,)) for v_ in dl.values())
                    if not good:
                        return False, 'the copy loop at %s does not copy every element of the vector to consecutive array positions' % e[2]
                    copied = True
                continue
            if e[0] == 'loop' and e[1][0] is not None:
                c = e[1][0]
                ok_c = c[0] == 'cmp' and c[1] in ('<', '!=') and c[2][0] == 'call' and c[2][1] == 'loopvar' and c[2][2][0] == terms.num(0) and \
                    untrunc(c[3]) in (size_t, ('sym', nname + '*'), ('deref', ('sym', nname)))
                writes_arr = False
                for kind, conds, sub in e[1][1]:
                    wr = [x for x in sub if x[0] == 'write-through' and x[1][0] == 'elem' and x[1][1] == ('sym', aname)]
                    if not wr:
                        continue
                    writes_arr = True
                    iv = c[2] if ok_c else None
                    dl = {x[1][0]: x[1][1] for x in sub if x[0] == 'delta'}
                    itn = c[2][2][1][1][len('@loop:'):] if ok_c and c[2][2][1][0] == 'sym' else None
                    step = dl.get(itn)
                    good = ok_c and len(wr) == 1 and not conds and kind in ('fall', 'cont') and untrunc(wr[0][1][2]) == iv and len(wr[0]) > 3 and \
                        wr[0][3] in (('elem', V, iv), ('mcall', V, 'at', (iv,))) and step == ('add', (iv, terms.num(1)))
                    if not good:
                        return False, 'the copy loop at %s is not `for i in [0, size): %s[i] = vec[i]`' % (e[2], aname)
                    copied = True
                if writes_arr and not ok_c:
                    return False, 'copy loop bound is `%s`, expected i < vec.size()' % terms.fmt(c)[:60]
        if not copied:
            if undecided:
                return None, undecided
            return False, 'no element copy loop'
    return True, ''


def status_forwarded(f, ret_paths, cxx):
    """every returning path yields the value of the C++ call (a literal 0 is accepted on a path whose condition says the value is 0)"""
    if not ret_paths:
        return False, 'no returning path'
    for o, evs in ret_paths:
        cs = [e for e in evs if e[0] == 'call']
        if len(cs) != 1:
            return False, 'C++ counterpart called %d times' % len(cs)
        R = ('call', 'repo:' + cxx, cs[0][1][1])
        if o.ret == R:
            continue
        zero = False
        for c in o.conds:
            neg = False
            while c[0] == 'not':
                neg = not neg
                c = c[1]
            if c == R and neg:
                zero = True
            if c[0] == 'cmp' and c[1] in ('==', '!=') and R in (c[2], c[3]) and terms.num(0) in (c[2], c[3]) and ((c[1] == '==') != neg):
                zero = True
        if o.ret == terms.num(0) and zero:
            continue
        return False, 'returns `%s` instead of the status of MASA::%s<double>' % (terms.fmt(o.ret)[:50] if o.ret is not None else None, cxx)
    return True, ''


def check_get_name(f, ret_paths):
    """the caller's buffer receives every character of the string the C++ call filled, and a terminator"""
    buf = ('sym', f.params[0]['n'])
    S = ('call', 'out:masa_get_name:0', ())
    cstr = (('mcall', S, 'c_str', ()), ('mcall', S, 'data', ()))
    length = (('mcall', S, 'size', ()), ('mcall', S, 'length', ()), ('size', S)) + tuple(('call', 'lib:strlen', (c,)) for c in cstr)
    if not ret_paths:
        return False, 'no returning path'
    for o, evs in ret_paths:
        ci = [i for i, e in enumerate(evs) if e[0] == 'call']
        if len(ci) != 1:
            return False, 'MASA::masa_get_name<double> is not called exactly once'
        if evs[ci[0]][1][1] and buf in list(terms.subterms(evs[ci[0]][1][1][0])):
            return False, "the caller's buffer is read (the string handed to the C++ call is built from it) before anything was written to it"
        for e in evs[:ci[0]]:
            if e[0] in ('libcall', 'write-through') and buf in [x for t in (e[1] if isinstance(e[1], tuple) else ()) for x in (terms.subterms(t) if isinstance(t, tuple) else ())]:
                return False, "the caller's buffer is used before the C++ call"
        done = None
        why = "the caller's buffer is never written from the string filled by MASA::masa_get_name<double>"
        after = evs[ci[0] + 1:]
        for j, e in enumerate(after):
            if e[0] != 'libcall':
                continue
            n, a = e[1]
            if n in ('strcpy', 'stpcpy') and len(a) == 2 and a[0] == buf:
                if a[1] in cstr:
                    done = True
                else:
                    done, why = False, '%s copies `%s`, not the string filled by the C++ call' % (n, terms.fmt(a[1])[:40])
            elif n in ('memcpy', 'memmove', 'strncpy') and len(a) == 3 and a[0] == buf:
                cnt = untrunc(a[2])
                if a[1] not in cstr:
                    done, why = False, '%s copies `%s`, not the string filled by the C++ call' % (n, terms.fmt(a[1])[:40])
                elif cnt[0] == 'add' and len(cnt[1]) == 2 and untrunc(cnt[1][0]) in length and cnt[1][1] == terms.num(1):
                    done = True         # all characters and the terminator
                elif cnt in length:
                    # all characters; the terminator must be stored separately at buffer[length]
                    term = [x for x in after[j + 1:] if x[0] == 'write-through' and x[1][0] == 'elem' and x[1][1] == buf and untrunc(x[1][2]) in length and len(x) > 3 and x[3] in (terms.num(0),)]
                    if term:
                        done = True
                    else:
                        done, why = False, '%s copies the characters but no terminator is stored at %s[length]' % (n, buf[1])
                else:
                    done, why = False, ('%s copies `%s` bytes: a count that is not the length of the name truncates longer names (and strncpy then leaves the buffer unterminated)'
                                        % (n, terms.fmt(cnt)[:40]))
            elif n in ('snprintf', 'sprintf') and a and a[0] == buf:
                if n == 'snprintf':
                    done, why = False, 'snprintf with a byte limit truncates names longer than the limit'
                else:
                    done, why = None, 'sprintf into the buffer: format not analysed, not decided'
            elif n in ('copy', 'copy_n') and len(a) == 3 and a[2] == buf:
                done, why = None, 'std::%s into the buffer: terminator not analysed, not decided' % n
        if done is None and why.startswith("the caller's buffer is never"):
            # element-wise loops etc.
            if any(e[0] == 'loop' for e in after):
                return None, 'the buffer is filled by a loop: not decided'
            return False, why
        if done is not True:
            return done, why
    return True, ''
