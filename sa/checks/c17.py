"""C17 - the C interface is a faithful view of the <double> C++ API (DESIGN 2, C17).

Every extern "C" definition of src/cmasa.cpp is classified and checked against
the shape its class requires.  Nothing is matched by text: callees are the
overloads clang resolved, arguments are ParmVarDecl references.
"""
import re
from ..ast import (peel_copy, strip, strip_fnptr, is_param, is_local, flat_stmts, calls, string_from,
                   reads_local, reads_param, show, int_value, nodes)
from ..ir import walk

LEVEL = 'other'

# C name -> C++ template name where they differ (frozen; confirmed on the pinned tree)
RENAME = {'masa_set_array': 'masa_set_vec', 'masa_get_array': 'masa_get_vec', 'masa_display_array': 'masa_display_vec'}
# wrappers that have no C++ counterpart call by design
SELF_CONTAINED = {'masa_test_default': 'documented purpose is to exit(); a literal copy of the template, solution independent'}
STATUS_FUNCS = ('masa_init_param', 'masa_sanity_check', 'masa_get_array')
STRING_T = 'std::basic_string<char'


def cxx_name(cname):
    m = re.match(r'masa_eval_(\d)d_(.*)$', cname)
    if m:
        return 'masa_eval_' + m.group(2), int(m.group(1))
    return RENAME.get(cname, cname), None


def arg_is_passthrough(arg, fn, want_idx):
    """argument is exactly parameter want_idx of the wrapper, possibly wrapped in a
    std::string construction (const char* -> std::string) or a (*f) on a function pointer"""
    a = strip(arg)
    s = string_from(a)
    if s is not None:
        return is_param(s, want_idx), 'string'
    a = strip_fnptr(a)
    if is_param(a, want_idx):
        return True, 'direct'
    return False, None


def run(ctx, prog):
    ctx.rule('C17.R1', 'evaluator wrapper masa_eval_<n>d_<kind>_<X> is a single `return MASA::masa_eval_<kind>_<X><double>(params in order)`; '
             'n equals the number of double parameters; no cast, no arithmetic')
    ctx.rule('C17.R2', 'data movers forward name and value unchanged; masa_set_array builds the vector from exactly [val, val+*n); '
             'masa_get_array stores vec.size() to *n and copies every element in index order')
    ctx.rule('C17.R3', 'the int returned by masa_init_param / masa_sanity_check / masa_get_array is the value the C++ callee returned on every path')
    ctx.rule('C17.R4', "masa_get_name writes the caller's buffer with bytes flowing from the string filled by MASA::masa_get_name<double>, and never reads the buffer first")
    ctx.rule('C17.R5', 'every MASA:: template called from an extern "C" function is the <double> instantiation and is the same-named entry point')
    ctx.rule('C17.R6', 'non-evaluator wrappers call their C++ counterpart exactly once on every path with their parameters passed through in order')
    ctx.explanation = ('Each extern "C" definition in cmasa.cpp is compared with the shape its class requires '
                       '(single forwarding return / data mover / status forwarder). The wrappers contain no arithmetic, so '
                       'shape equality implies bit-identical results for every argument and every registry state.')

    tu = 'cmasa.cpp'
    ctx.require(tu in prog.fn_by_tu, 'src/cmasa.cpp not analysed')
    wrappers = [f for f in prog.fn_by_tu[tu] if f.get('externc') and f.where.startswith('src/cmasa.cpp')]
    ctx.floor('extern_C_definitions', len(wrappers), 95)
    n_eval = 0
    seen_status = set()
    for f in wrappers:
        name = f.n
        body = f.body
        cxx, ndim = cxx_name(name)
        want_q = 'MASA::%s<double>' % cxx
        masa_calls = [c for c in calls(body) if (c.get('q') or '').startswith('MASA::')]
        # ---- R5: double instantiation, same-named entry point
        if name in SELF_CONTAINED:
            ctx.ob('C17.R5', name, len(masa_calls) == 0, f.where, 'self-contained wrapper now calls into MASA::', nontrivial=False)
            continue
        bad = [c for c in masa_calls if c['q'] != want_q]
        ctx.ob('C17.R5', name, not bad and len(masa_calls) >= 1, f.where,
               'calls %s, expected exactly %s' % ([c['q'] for c in masa_calls], want_q),
               sample='%s -> %s' % (name, want_q))
        if bad or not masa_calls:
            continue
        call = masa_calls[0]
        st = flat_stmts(body)
        if ndim is not None:
            n_eval += 1
            # ---- R1
            ok = True
            why = ''
            if len(st) != 1 or st[0].get('k') != 'return' or strip(st[0]['e']) is not call:
                ok, why = False, 'body is not a single `return <call>`'
            nd = sum(1 for p in f.params if p['t'] == 'double')
            if ok and nd != ndim:
                ok, why = False, 'name says %dd but the wrapper takes %d double coordinates' % (ndim, nd)
            if ok and len(call['args']) != len(f.params):
                ok, why = False, 'callee receives %d arguments, wrapper has %d parameters' % (len(call['args']), len(f.params))
            if ok:
                for i, a in enumerate(call['args']):
                    good, how = arg_is_passthrough(a, f, i)
                    if not good or how == 'string':
                        ok, why = False, 'argument %d is `%s`, expected parameter %s unchanged' % (i + 1, show(a), f.params[i]['n'])
                        break
            if ok and f.ret != 'double':
                ok, why = False, 'returns %s' % f.ret
            if ok and any(True for _ in nodes(body, 'cast')):
                ok, why = False, 'a conversion occurs inside the wrapper'
            ctx.ob('C17.R1', name, ok, f.where, why, sample='%s(%s) = return %s(%s)' % (
                name, ', '.join(p['t'] for p in f.params), want_q, ', '.join(show(a) for a in call['args'])))
            continue
        # ---- non-evaluator wrappers: R6 pass-through of parameters
        ok, why = True, ''
        if len(masa_calls) != 1:
            ok, why = False, 'C++ counterpart called %d times' % len(masa_calls)
        if ok:
            ok, why = passthrough_ok(f, call, st)
        ctx.ob('C17.R6', name, ok, f.where, why, sample='%s -> %s(%s)' % (name, want_q, ', '.join(show(a) for a in call['args'])))
        # ---- R2 data movers
        if name == 'masa_set_array':
            ok, why = check_set_array(f, call, st)
            ctx.ob('C17.R2', name, ok, f.where, why, sample='vector built from [val, val+*n)')
        elif name == 'masa_get_array':
            ok, why = check_get_array(f, call, st)
            ctx.ob('C17.R2', name, ok, f.where, why, sample='*n = vec.size(); array[i] = vec[i] for i in [0,size)')
        elif name in ('masa_set_param', 'masa_get_param'):
            ok = len(st) == 1 and st[0]['k'] == 'return' and strip(st[0]['e']) is call and \
                not [c for c in nodes(body, 'cast') if c['ck'] not in ('ConstructorConversion',)]
            ctx.ob('C17.R2', name, ok, f.where, 'not a single forwarding return', sample=show(call))
        # ---- R3
        if name in STATUS_FUNCS:
            seen_status.add(name)
            ok, why = status_forwarded(f, call)
            ctx.ob('C17.R3', name, ok, f.where, why, sample='returns the value of %s' % want_q)
        # ---- R4
        if name == 'masa_get_name':
            ok, why = check_get_name(f, call, st)
            ctx.ob('C17.R4', name, ok, f.where, why, sample='buffer written from the string filled by the C++ call')
    ctx.floor('evaluator_wrappers', n_eval, 78)
    ctx.require(seen_status == set(STATUS_FUNCS), 'status wrappers not found: %s' % (set(STATUS_FUNCS) - seen_status))
    ctx.require(any(f.n == 'masa_get_name' for f in wrappers), 'masa_get_name wrapper not found')
    ctx.analysed['translation_unit'] = 'src/cmasa.cpp'


def local_def(st, lid):
    """the declaration (init expr) of local lid among top-level statements"""
    for s in st:
        if s.get('k') == 'decl':
            for v in s['vars']:
                if v['id'] == lid:
                    return v
    return None


def passthrough_ok(f, call, st):
    """argument i of the C++ call is parameter i (possibly through a std::string local or
    temporary, or a local vector for the array functions)"""
    args = call['args']
    # array movers have (name, n, buffer) vs (name, vector)
    if f.n in ('masa_set_array', 'masa_get_array'):
        good, how = arg_is_passthrough(args[0], f, 0)
        if not good:
            return False, 'name argument is `%s`, expected parameter `%s`' % (show(args[0]), f.params[0]['n'])
        if not is_local(args[1]):
            return False, 'vector argument is not the local vector'
        return True, ''
    if f.n == 'masa_get_name':
        return True, ''  # shape decided by R4
    if len(args) != len(f.params):
        return False, 'callee receives %d arguments, wrapper has %d parameters' % (len(args), len(f.params))
    for i, a in enumerate(args):
        good, how = arg_is_passthrough(a, f, i)
        if good:
            continue
        a0 = peel_copy(a)
        if is_local(a0):
            v = local_def(st, a0['id'])
            s = string_from(v['init']) if v else None
            if s is not None and is_param(s, i):
                # the local must not be modified between construction and the call
                if not local_modified(st, a0['id'], call):
                    continue
        return False, 'argument %d is `%s`, expected parameter `%s` unchanged' % (i + 1, show(a), f.params[i]['n'])
    return True, ''


def local_modified(st, lid, before_call):
    """any statement before the call (other than its declaration) that mentions the local
    in a non-const context: conservative = any mention at all"""
    for s in st:
        if any(n is before_call for n in walk(s)):
            return False
        if s.get('k') == 'decl' and any(v['id'] == lid for v in s['vars']):
            # other variables' initialisers in the same decl must not mention it
            continue
        if reads_local(s, lid):
            return True
    return False


def check_set_array(f, call, st):
    vec = strip(call['args'][1])
    v = local_def(st, vec['id'])
    if not v or not v.get('init') or strip(v['init'], casts=True).get('k') != 'construct':
        return False, 'vector is not constructed from the input range'
    c = strip(v['init'], casts=True)
    if not c['ctor'].startswith('void (double *, double *') and not c['ctor'].startswith('void (const double *, const double *'):
        return False, 'vector constructor is `%s`, expected the iterator-range constructor' % c['ctor']
    lo, hi = c['args'][0], c['args'][1]

    def ptr_plus(e):
        """returns ('val', offset-expr or 0)"""
        e = strip(e)
        if e.get('k') == 'un' and e['op'] == '&':
            ix = strip(e['e'])
            if ix.get('k') == 'index' and is_param(ix['base'], 2):
                return strip(ix['idx'])
        if is_param(e, 2):
            return {'k': 'int', 'v': '0'}
        if e.get('k') == 'bin' and e['op'] == '+' and is_param(e['a'], 2):
            return strip(e['b'])
        return None
    l, h = ptr_plus(lo), ptr_plus(hi)
    if l is None or int_value(l) != 0:
        return False, 'range does not start at val[0]: `%s`' % show(lo)
    if h is None or not (h.get('k') == 'un' and h['op'] == '*' and is_param(h['e'], 1)):
        return False, 'range does not end at val[*n]: `%s`' % show(hi)
    if local_modified(st, vec['id'], call):
        return False, 'vector modified between construction and the call'
    return True, ''


def check_get_array(f, call, st):
    vec = strip(call['args'][1])
    vid = vec['id']
    # statements after the call
    idx = None
    for i, s in enumerate(st):
        if any(n is call for n in walk(s)):
            idx = i
            break
    after = st[idx + 1:]
    size_store = False
    copy_ok = False
    why = ''

    def is_vec_size(e):
        e = strip(e, casts=True)
        return e.get('k') == 'call' and e.get('n') == 'size' and is_local(e.get('obj'), vid)

    def is_n_deref(e):
        e = strip(e)
        return e.get('k') == 'un' and e['op'] == '*' and is_param(e['e'], 1)
    for s in after:
        if s.get('k') == 'bin' and s['op'] == '=' and is_n_deref(s['a']) and is_vec_size(s['b']):
            size_store = True
        if s.get('k') == 'for':
            init = s['init']
            if not (init and init.get('k') == 'decl' and len(init['vars']) == 1 and int_value(init['vars'][0]['init']) == 0):
                why = 'copy loop does not start at 0'
                continue
            iv = init['vars'][0]['id']
            c = strip(s['c'])
            if not (c.get('k') == 'bin' and c['op'] in ('<', '!=') and is_local(c['a'], iv) and
                    (is_vec_size(c['b']) or (size_store and is_n_deref(c['b'])))):
                why = 'copy loop bound is `%s`, expected i < vec.size()' % show(s['c'])
                continue
            inc = strip(s['inc'])
            if not (inc.get('k') == 'un' and inc['op'] == '++' and is_local(inc['e'], iv)):
                why = 'copy loop increment is not ++'
                continue
            body = flat_stmts(s['body'])
            if len(body) == 1 and body[0].get('k') == 'bin' and body[0]['op'] == '=':
                lhs, rhs = strip(body[0]['a']), strip(body[0]['b'], casts=False)
                lhs_ok = lhs.get('k') == 'index' and is_param(lhs['base'], 2) and is_local(lhs['idx'], iv)
                r = strip(rhs)
                rhs_ok = r.get('k') == 'call' and r.get('n') in ('operator[]', 'at') and \
                    is_local(r['args'][0] if r.get('opcall') else r.get('obj'), vid) and \
                    is_local(r['args'][-1], iv, casts=True)
                if lhs_ok and rhs_ok:
                    copy_ok = True
                else:
                    why = 'copy statement is `%s`, expected array[i] = vec[i]' % show(body[0])
            else:
                why = 'copy loop body is not a single element assignment'
    if not size_store:
        return False, 'vec.size() is not stored to *n'
    if not copy_ok:
        return False, why or 'no element copy loop'
    return True, ''


def status_forwarded(f, call):
    """every return yields the value of `call` (DESIGN C17.R3)"""
    st = flat_stmts(f.body)
    holder = None   # local id holding the status
    zero_known = False
    rets = 0
    for s in st:
        k = s.get('k')
        if k == 'decl':
            for v in s['vars']:
                if v.get('init') is not None and strip(v['init'], casts=False) is call:
                    holder = v['id']
            continue
        if k == 'bin' and s['op'] == '=' and strip(s['b']) is call and is_local(s['a']):
            holder = strip(s['a'])['id']
            continue
        if k == 'if' and holder is not None:
            c = strip(s['c'], casts=True)
            cond_is_status = is_local(c, holder) or (
                c.get('k') == 'bin' and c['op'] == '!=' and
                ((is_local(c['a'], holder) and int_value(c['b']) == 0) or (is_local(c['b'], holder) and int_value(c['a']) == 0)))
            th = flat_stmts(s['then'])
            if cond_is_status and th and th[-1].get('k') == 'return' and s.get('else') is None:
                e = strip(th[-1]['e'])
                if not is_local(e, holder):
                    return False, 'early return yields `%s`, not the callee status' % show(th[-1]['e'])
                rets += 1
                zero_known = True
                continue
        for r in nodes(s, 'return'):
            rets += 1
            e = strip(r['e'])
            if e is call:
                continue
            if holder is not None and is_local(e, holder):
                continue
            if zero_known and int_value(e) == 0:
                continue
            return False, 'returns `%s` at %s instead of the status of %s' % (show(r['e']), r['l'], call['q'])
        # the holder must not be overwritten
        if holder is not None and k == 'bin' and is_local(s['a'], holder):
            return False, 'status variable overwritten'
    if rets == 0:
        return False, 'no return statement'
    return True, ''


WRITERS = {'strcpy': (0, 1), 'strncpy': (0, 1), 'memcpy': (0, 1), 'memmove': (0, 1), 'stpcpy': (0, 1),
           'sprintf': (0, None), 'snprintf': (0, None)}


def check_get_name(f, call, st):
    # the std::string handed to the C++ call
    a = strip(call['args'][0])
    if not (a.get('k') == 'un' and a['op'] == '&' and is_local(a['e'])):
        return False, 'C++ call does not receive the address of a local string'
    sid = strip(a['e'])['id']
    v = local_def(st, sid)
    # O5 / R4: the output buffer must not be read before it is written
    if v is not None and v.get('init') is not None and reads_param(v['init'], 0):
        return False, "the caller's buffer is read (std::string constructed from it) before anything was written to it"
    seen_call = False
    for s in st:
        if any(n is call for n in walk(s)):
            seen_call = True
            continue
        if not seen_call:
            if reads_param(s, 0):
                return False, "the caller's buffer is used before the C++ call"
            continue
        for c in calls(s):
            n = c.get('n')
            if n in WRITERS:
                d, src = WRITERS[n]
                if is_param(c['args'][d], 0) and any(reads_local(x, sid) for x in c['args'][1:]):
                    return True, ''
            if n == 'copy' and c.get('obj') is not None and is_local(c['obj'], sid) and is_param(c['args'][0], 0):
                return True, ''
            if n == 'copy' and 'rec' not in c and len(c['args']) == 3 and reads_local(c['args'][0], sid) and is_param(c['args'][2], 0):
                return True, ''
        if s.get('k') in ('for', 'while'):
            for b in nodes(s, 'bin'):
                if b['op'] == '=':
                    lhs = strip(b['a'])
                    if lhs.get('k') == 'index' and is_param(lhs['base'], 0) and reads_local(b['b'], sid):
                        return True, ''
    return False, "the caller's buffer is never written from the string filled by MASA::masa_get_name<double>"
