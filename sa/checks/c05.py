"""C05 - Spalart-Allmaras solutions (rans_sa channel, FANS-SA free shear, FANS-SA wall bounded)."""
from fractions import Fraction
from .. import residual as rs, poly, terms
from .. import catalogue as cat
from ..report import AnalysisBroken

LEVEL = 'other'
S = poly.sym
add, mul, d = poly.add, poly.mul, poly.diff
inv = poly.inverse


# --------------------------------------------------------------------------
# rans_sa: helper-level verification
# --------------------------------------------------------------------------
RANS_HELPERS = ('u', 'du', 'd2u', 'nu', 'dnu', 'd2nu', 'production', 'destruction', 'transport', 'cw1', 'chi', 'fv1', 'fv2', 's', 'r', 'g', 'fw', 'dvt', 'vt')


def rans_paths(prog, cls, scalar, name, opaque):
    """[(conds, poly)] of rans_sa::name(eta) with calls to the helpers in `opaque` replaced by symbols '@helper'"""
    fs = [f for f in prog.methods_of(cls) if f.n == name]
    if len(fs) != 1:
        raise AnalysisBroken('rans_sa::%s: %d definitions' % (name, len(fs)))
    fn = fs[0]
    E = terms.Evaluator(prog, dyn_class=cls, scalar=scalar)

    def hook(e, opath, n, args):
        if opath == '' and n in opaque and n != name:
            return ('sym', '@' + n)
        return None
    E.opaque_hook = hook
    outs = E.run(fn, arg_names=['eta'] if fn.params else [])
    res = []
    for o in outs:
        if o.kind != 'ret' or o.ret is None or terms.has_unk(o.ret):
            raise AnalysisBroken('rans_sa::%s has a path that is not a single expression' % name)
        try:
            # a ternary (or a helper with several returns) selects a value: same thing as branching
            for cs2, r2 in terms.split_ite(o.conds, o.ret):
                res.append((cs2, poly.from_term(r2)))
        except ValueError as ex:
            raise AnalysisBroken('rans_sa::%s: %s' % (name, ex))
    return fn, res


def check_rans(ctx, prog):
    scalar_res = {}
    for scalar in cat.SCALARS:
        cls = 'MASA::rans_sa<%s>' % scalar
        ctx.require(cls in prog.records, '%s not in IR' % cls)
        H = lambda n: S('@' + n)
        eta = S('eta')
        got = {}

        def one(name, opaque=RANS_HELPERS):
            fn, ps = rans_paths(prog, cls, scalar, name, opaque)
            if len(ps) != 1:
                raise AnalysisBroken('rans_sa::%s: expected one path, found %d' % (name, len(ps)))
            got[name] = ps[0][1]
            return ps[0][1], fn

        def full(name):
            fn, ps = rans_paths(prog, cls, scalar, name, ())
            if len(ps) != 1:
                raise AnalysisBroken('rans_sa::%s (inlined): expected one path' % name)
            return ps[0][1], fn
        rec = []
        # fields and their derivatives (fully inlined polynomials in eta)
        u, fu = full('u')
        nu, fnu = full('nu')
        rec.append(('DERIV', 'du', full('du'), d(u, 'eta')))
        rec.append(('DERIV', 'd2u', full('d2u'), d(d(u, 'eta'), 'eta')))
        rec.append(('DERIV', 'dnu', full('dnu'), d(nu, 'eta')))
        rec.append(('DERIV', 'd2nu', full('d2nu'), d(d(nu, 'eta'), 'eta')))
        vt, fvt = full('vt')
        rec.append(('DERIV', 'dvt', full('dvt'), d(vt, 'eta')))
        # closure functions, each against the standard SA definition of its inputs
        kap2 = mul(S('kappa'), S('kappa'))
        rec.append(('CLOSURE', 'chi', one('chi'), mul(H('nu'), S('re_tau'))))
        chi3 = poly.ipow(H('chi'), 3)
        rec.append(('CLOSURE', 'fv1', one('fv1'), mul(chi3, inv(add(chi3, poly.ipow(S('cv1'), 3))))))
        rec.append(('CLOSURE', 'fv2', one('fv2'), add(poly.const(1), mul(H('chi'), inv(add(poly.const(1), mul(H('chi'), H('fv1'))))), -1)))
        rec.append(('CLOSURE', 'vt', one('vt'), mul(H('nu'), H('fv1'))))
        rec.append(('CLOSURE', 'cw1', one('cw1'), add(mul(S('cb1'), inv(kap2)), mul(add(poly.const(1), S('cb2')), inv(S('sigma'))))))
        r6 = poly.ipow(H('r'), 6)
        rec.append(('CLOSURE', 'g', one('g'), add(H('r'), mul(S('cw2'), add(r6, H('r'), -1)))))
        g6 = poly.ipow(H('g'), 6)
        c6 = poly.ipow(S('cw3'), 6)
        ratio = mul(add(poly.const(1), c6), inv(add(g6, c6)))
        fw_want = mul(H('g'), poly.atom(('fn', 'pow', (poly.canon(poly.reduce_trig(ratio)), poly.canon(poly.const(Fraction(1, 6)))))))
        rec.append(('CLOSURE', 'fw', one('fw'), fw_want))
        rec.append(('CLOSURE', 'production', one('production'), mul(mul(S('cb1'), H('s')), H('nu'))))
        rec.append(('CLOSURE', 'destruction', one('destruction'), mul(mul(H('cw1'), H('fw')), poly.ipow(mul(H('nu'), S('eta', -1)), 2))))
        # assembled equations (fully inlined where the property speaks of derivatives of position)
        tr, ftr = full('transport')
        diffn = d(mul(add(inv(S('re_tau')), nu), d(nu, 'eta')), 'eta')
        rec.append(('EQN', 'transport', (tr, ftr), mul(inv(S('sigma')), add(diffn, mul(S('cb2'), poly.ipow(d(nu, 'eta'), 2))))))
        qu, fqu = full('eval_q_u')
        rec.append(('EQN', 'eval_q_u', (qu, fqu), add(add(mul(inv(S('re_tau')), d(d(u, 'eta'), 'eta')), d(mul(vt, d(u, 'eta')), 'eta')), poly.const(1))))
        rec.append(('EQN', 'eval_q_v', one('eval_q_v'), add(add(H('production'), H('destruction'), -1), H('transport'))))
        rec.append(('EQN', 'eval_exact_u', one('eval_exact_u'), H('u')))
        rec.append(('EQN', 'eval_exact_v', one('eval_exact_v'), H('nu')))
        # piecewise closures: S_sa and r
        fs, ps = rans_paths(prog, cls, scalar, 's', RANS_HELPERS)
        Sbar = mul(mul(H('nu'), H('fv2')), inv(mul(kap2, mul(eta, eta))))
        s1 = add(H('du'), Sbar)
        s2 = add(H('du'), mul(mul(H('du'), add(mul(mul(S('cv2'), S('cv2')), H('du')), mul(S('cv3'), Sbar))),
                              inv(add(mul(add(S('cv3'), poly.scale(S('cv2'), -2)), H('du')), Sbar, -1))))
        fr, pr = rans_paths(prog, cls, scalar, 'r', RANS_HELPERS)
        rt = mul(H('nu'), inv(mul(mul(H('s'), kap2), mul(eta, eta))))
        scalar_res[scalar] = ([x[2][0] for x in rec], [p_[1] for p_ in ps], [p_[1] for p_ in pr])
        if scalar != 'double':
            continue
        for kind, name, (gotp, fn), want in rec:
            rs.compare(ctx, 'C05.RANS-' + kind, 'rans_sa|' + name, gotp, want, fn.where, 'rans_sa::' + name)
        ok = len(ps) == 2
        if ok:
            # branch on Sbar >= -cv2*du
            c0 = ps[0][0][0] if ps[0][0] else None
            ok = c0 is not None and c0[0] == 'cmp' and c0[1] == '>='
            if ok:
                lhs, rhs = poly.from_term(c0[2]), poly.from_term(c0[3])
                ok = poly.equal(lhs, Sbar) and poly.equal(rhs, poly.neg(mul(S('cv2'), H('du'))))
        ctx.ob('C05.RANS-CLOSURE', 'rans_sa|s-branch', ok, fs.where, 'rans_sa::s does not branch on Sbar >= -cv2*du with Sbar = nu fv2/(kappa^2 eta^2)', sample='if (Sbar >= -cv2*du)')
        if len(ps) == 2:
            rs.compare(ctx, 'C05.RANS-CLOSURE', 'rans_sa|s-regular', ps[0][1], s1, fs.where, 'rans_sa::s (Sbar >= -cv2 du)')
            rs.compare(ctx, 'C05.RANS-CLOSURE', 'rans_sa|s-modified', ps[1][1], s2, fs.where, 'rans_sa::s (negative-S modification)')
        # r = min(nu/(S kappa^2 eta^2), 10), however the selection is written (if, ternary, std::min, either comparison)
        ok = len(pr) == 2
        why_r = 'rans_sa::r has %d alternatives, expected the two of min(nu/(S kappa^2 eta^2), 10)' % len(pr)
        ten = poly.const(10)
        for conds_r, val_r in (pr if ok else []):
            rel = None
            for c0 in conds_r:
                neg = False
                while c0[0] == 'not':
                    neg = not neg
                    c0 = c0[1]
                if c0[0] != 'cmp' or c0[1] not in ('<', '<=', '>', '>='):
                    continue
                try:
                    A_, B_ = poly.from_term(c0[2]), poly.from_term(c0[3])
                except ValueError:
                    continue
                if poly.equal(A_, rt) and poly.equal(B_, ten):
                    gt = c0[1] in ('>', '>=')
                elif poly.equal(B_, rt) and poly.equal(A_, ten):
                    gt = c0[1] in ('<', '<=')
                else:
                    continue
                rel = gt != neg
            if rel is None:
                ok, why_r = False, 'an alternative of rans_sa::r is not selected by comparing nu/(S kappa^2 eta^2) with 10'
            elif rel and not poly.equal(val_r, ten):
                ok, why_r = False, 'rans_sa::r is %s where nu/(S kappa^2 eta^2) exceeds 10' % poly.fmt(val_r, 2)[:60]
            elif not rel and not poly.equal(val_r, rt):
                ok, why_r = False, 'rans_sa::r is %s where nu/(S kappa^2 eta^2) is below 10' % poly.fmt(val_r, 2)[:60]
        ctx.ob('C05.RANS-CLOSURE', 'rans_sa|r-limiter', ok, fr.where, why_r, sample='r = min(nu/(S kappa^2 d^2), 10)')
        if len(pr) == 2:
            rs.compare(ctx, 'C05.RANS-CLOSURE', 'rans_sa|r-limited', pr[0][1], poly.const(10), fr.where, 'rans_sa::r (limited)')
            rs.compare(ctx, 'C05.RANS-CLOSURE', 'rans_sa|r-regular', pr[1][1], rt, fr.where, 'rans_sa::r')
    ctx.ob('C05.UNI', 'rans_sa', scalar_res['double'] == scalar_res['long double'], '', 'rans_sa: instantiations differ', sample='all helpers identical in both instantiations')


# --------------------------------------------------------------------------
# FANS-SA free shear
# --------------------------------------------------------------------------
FZ = {'RHO': '@rho', 'U': '@u', 'V': '@v', 'P': '@p', 'NU_SA': '@nu'}
FIELD_OF = {'RHO': 'rho', 'U': 'u', 'V': 'v', 'P': 'p', 'NU_SA': 'nu'}


def subst_jets(pl, base):
    """replace derivative jets '@f_s' by the explicit derivative of the field definition base['@f'] (recursively inside atoms);
    base jets '@f' stay symbols"""
    def jetpoly(name):
        if '_' not in name:
            return None
        b, suf = name.rsplit('_', 1)
        if b not in base or not suf:
            return None
        q = base[b]
        for c in suf:
            q = d(q, c)
        return q

    def sub(p):
        out = {}
        for m, c in p.items():
            term = {(): c}
            for a, e in m:
                if a[0] == 'sym':
                    rep = jetpoly(a[1])
                    term = mul(term, poly.ipow(rep, e) if rep is not None else {((a, e),): Fraction(1)})
                elif a[0] == 'inv':
                    term = mul(term, poly.ipow(inv(sub(poly.uncanon(a[1]))), e))
                elif a[0] == 'fn' and a[1] == 'sqrt':
                    term = mul(term, poly.ipow(poly.sqrt_of(sub(poly.uncanon(a[2][0]))), e))
                elif a[0] in ('sin', 'cos'):
                    term = mul(term, poly.ipow(poly.from_term(('call', a[0], (('sym', '__a'),)), {'__a': sub(poly.uncanon(a[1]))}), e))
                elif a[0] == 'fn':
                    na = ('fn', a[1], tuple(poly.canon(poly.reduce_trig(sub(poly.uncanon(c_)))) for c_ in a[2]))
                    term = mul(term, {((na, e),): Fraction(1)})
                else:
                    term = mul(term, {((a, e),): Fraction(1)})
            out = add(out, term)
        return out
    return sub(pl)


def fans_oracle(coords2, time, F=None, wall=None, S_override=None, fv1_override=None):
    """Favre-averaged compressible Navier-Stokes closed with Spalart-Allmaras.  F: field polynomials (jet symbols by
    default).  wall = (d, f_w, c_w1) adds the wall destruction term; S_override replaces |omega| by the given S."""
    if F is None:
        F = {k: S(v) for k, v in (('rho', '@rho'), ('u', '@u'), ('v', '@v'), ('p', '@p'), ('nu', '@nu'))}
    rho, u, v, P, nu = F['rho'], F['u'], F['v'], F['p'], F['nu']
    mu = S('mu')
    chi = mul(mul(rho, nu), S('mu', -1))
    chi3 = poly.ipow(chi, 3)
    fv1 = mul(chi3, inv(add(chi3, poly.ipow(S('c_v1'), 3)))) if fv1_override is None else fv1_override
    mut = mul(mul(rho, nu), fv1)
    mueff = add(mu, mut)
    vel = [u, v]
    sp = list(coords2)
    divu = add(d(u, sp[0]), d(v, sp[1]))

    def tau(i, j, m):
        t = mul(m, add(d(vel[i], sp[j]), d(vel[j], sp[i])))
        if i == j:
            t = add(t, mul(poly.scale(m, Fraction(-2, 3)), divu))
        return t
    R = {}
    R['rho'] = add(d(rho, time) if time else {}, add(d(mul(rho, u), sp[0]), d(mul(rho, v), sp[1])))
    for i in range(2):
        r = d(mul(rho, vel[i]), time) if time else {}
        for j in range(2):
            r = add(r, d(mul(mul(rho, vel[i]), vel[j]), sp[j]))
        r = add(r, d(P, sp[i]))
        for j in range(2):
            r = add(r, d(tau(i, j, mueff), sp[j]), -1)
        R['rho_' + 'uv'[i]] = r
    if S_override is not None:
        Sv = S_override
    else:
        om = add(d(u, sp[1]), d(v, sp[0]), -1)
        Sv = poly.atom(('fn', 'sqrt', (poly.canon(mul(om, om)),)))
    sa = add(d(mul(rho, nu), time) if time else {}, add(d(mul(mul(rho, u), nu), sp[0]), d(mul(mul(rho, v), nu), sp[1])))
    dif = add(d(mul(add(mu, mul(rho, nu)), d(nu, sp[0])), sp[0]), d(mul(add(mu, mul(rho, nu)), d(nu, sp[1])), sp[1]))
    g2 = add(mul(d(nu, sp[0]), d(nu, sp[0])), mul(d(nu, sp[1]), d(nu, sp[1])))
    sa = add(sa, mul(inv(S('sigma')), add(dif, mul(mul(S('c_b2'), rho), g2))), -1)
    sa = add(sa, mul(mul(mul(S('c_b1'), Sv), rho), nu), -1)
    if wall is not None:
        dist, fw, cw1 = wall
        sa = add(sa, mul(mul(mul(cw1, fw), rho), poly.ipow(mul(nu, inv(dist)), 2)))
    R['nu'] = sa
    cv = mul(S('R'), inv(add(S('Gamma'), poly.const(-1))))
    cp = mul(S('Gamma'), cv)
    T = mul(P, inv(mul(rho, S('R'))))
    E = add(mul(cv, T), poly.scale(add(mul(u, u), mul(v, v)), Fraction(1, 2)))
    Hh = add(E, mul(P, inv(rho)))
    en = d(mul(rho, E), time) if time else {}
    kc = mul(cp, add(mul(mu, inv(S('Pr'))), mul(mut, inv(S('Pr_t')))))
    for j in range(2):
        en = add(en, d(mul(mul(rho, vel[j]), Hh), sp[j]))
        work = {}
        for i in range(2):
            work = add(work, mul(tau(i, j, mueff), vel[i]))
        en = add(en, d(work, sp[j]), -1)
        en = add(en, d(mul(kc, d(T, sp[j])), sp[j]), -1)
    R['rho_e'] = en
    return R


def check_free_shear(ctx, prog):
    short = 'fans_sa_transient_free_shear'
    res = {}
    for scalar in cat.SCALARS:
        cls = 'MASA::%s<%s>' % (short, scalar)
        ctx.require(cls in prog.records, '%s not in IR' % cls)
        co3 = ['x', 'y', 't']
        Q3, Q2, defs, where = {}, {}, {}, {}
        try:
            for eq in ('rho', 'rho_u', 'rho_v', 'rho_e', 'nu'):
                Q3[eq], fn, tr = rs.evaluator_poly(prog, cls, scalar, 'eval_q_' + eq, co3, freeze=FZ, want_trace=True)
                ctx.require(Q3[eq] is not None, '%s::eval_q_%s(x,y,t) missing' % (short, eq))
                where[eq] = fn.where
                for n, vals in tr.frozen_values.items():
                    for v in vals:
                        pl = poly.from_term(v)
                        if n in defs and defs[n][0] != pl:
                            ctx.ob('C05.FS-COPIES', '%s|%s|%s' % (n, eq, scalar), False, fn.where,
                                   'local copy of %s in eval_q_%s differs from the copy in %s' % (n, eq, defs[n][1]))
                        defs.setdefault(n, (pl, 'eval_q_' + eq))
                # steady form: f(x,y) == f(x,y,0), with the field copies kept as symbols (their definitions are compared separately)
                q2, fn2, tr2 = rs.evaluator_poly(prog, cls, scalar, 'eval_q_' + eq, ['x', 'y'], freeze=FZ, want_trace=True)
                q3, _ = rs.evaluator_poly(prog, cls, scalar, 'eval_q_' + eq, co3, env={'t': {}}, freeze=FZ)
                d2 = {n: [poly.from_term(v) for v in vals] for n, vals in tr2.frozen_values.items()}
                Q2[eq] = (q2, q3, fn2, d2)
            nu2, fnn2 = rs.evaluator_poly(prog, cls, scalar, 'eval_exact_nu', ['x', 'y'])
            nu3, fnn3 = rs.evaluator_poly(prog, cls, scalar, 'eval_exact_nu', co3)
            nu30, _ = rs.evaluator_poly(prog, cls, scalar, 'eval_exact_nu', co3, env={'t': {}})
            ex2, ex3 = {}, {}
            for f in ('rho', 'u', 'v', 'p'):
                ex2[f] = rs.evaluator_poly(prog, cls, scalar, 'eval_exact_' + f, ['x', 'y'])
                ex3[f] = rs.evaluator_poly(prog, cls, scalar, 'eval_exact_' + f, co3)
        except rs.Inconclusive as ex:
            raise AnalysisBroken(str(ex))
        ctx.require(set(defs) == set(FZ), 'free shear: local field copies found: %s' % sorted(defs))
        res[scalar] = (Q3, {k: v[0] for k, v in Q2.items()}, {k: v[0] for k, v in defs.items()}, nu2, nu3)
        if scalar != 'double':
            continue
        for n in sorted(defs):
            ctx.ob('C05.FS-COPIES', 'consistent|' + n, True, '', sample='every source term uses the same expression for %s' % n)
        # steady forms
        for eq, (q2, q3, fn2, d2) in Q2.items():
            rs.compare(ctx, 'C05.FS-STEADY', 'eval_q_%s/2' % eq, q2, q3, fn2.where, '%s::eval_q_%s(x,y) vs (x,y,t=0)' % (short, eq))
            for n, pls in d2.items():
                for pl in pls:
                    rs.compare(ctx, 'C05.FS-STEADY', 'eval_q_%s/2|%s' % (eq, n), pl, subst_t0(defs[n][0]), fn2.where, 'field copy %s inside %s::eval_q_%s(x,y) vs its (x,y,t) form at t=0' % (n, short, eq))
        rs.compare(ctx, 'C05.FS-STEADY', 'eval_exact_nu/2', nu2, nu30, fnn2.where, '%s::eval_exact_nu(x,y) vs (x,y,t=0)' % short)
        # the fields the API returns vs the fields the sources differentiate
        rs.compare(ctx, 'C05.FS-FIELDS', 'nu', nu3, defs['NU_SA'][0], fnn3.where, '%s::eval_exact_nu(x,y,t) vs the NU_SA of the sources' % short)
        for loc, f in (('RHO', 'rho'), ('U', 'u'), ('V', 'v'), ('P', 'p')):
            e3 = ex3.get(f)
            if e3 is not None and e3[0] is not None:
                rs.compare(ctx, 'C05.FS-FIELDS', f, e3[0], defs[loc][0], e3[1].where, '%s::eval_exact_%s(x,y,t) vs the %s of the sources' % (short, f, loc))
                rs.compare(ctx, 'C05.FS-STEADY', 'eval_exact_%s/2' % f, ex2[f][0], subst_t0(e3[0]), ex2[f][1].where, '%s::eval_exact_%s(x,y) vs (x,y,t=0)' % (short, f))
            else:
                # no (x,y,t) form: the only field the API returns is the steady one
                rs.compare(ctx, 'C05.FS-FIELDS', f, ex2[f][0], subst_t0(defs[loc][0]), ex2[f][1].where,
                           '%s::eval_exact_%s(x,y) vs the field the steady sources differentiate (local %s at t=0)' % (short, f, loc))
                ctx.ob('C05.FS-FIELDS', f + '|transient-form', False, ex2[f][1].where,
                       '%s has no eval_exact_%s(x,y,t): the transient sources are not the residual of any field the API returns' % (short, f))
        # residual
        poly.JETS = set(FZ.values())
        poly.JET_COORDS = ('x', 'y', 't')
        try:
            R = fans_oracle(['x', 'y'], 't')
        finally:
            poly.JETS = set()
            poly.JET_COORDS = ()
        base = {FZ[k]: v[0] for k, v in defs.items()}
        for eq in ('rho', 'rho_u', 'rho_v', 'nu', 'rho_e'):
            rs.compare(ctx, 'C05.FS-RES', '%s|%s' % (short, eq), Q3[eq], subst_jets(R[eq], base), where[eq], '%s::eval_q_%s(x,y,t)' % (short, eq))
    ctx.ob('C05.UNI', short, res['double'] == res['long double'], '', 'free shear: instantiations differ', sample='all evaluators identical in both instantiations')


def subst_t0(p):
    """p with the coordinate t replaced by 0 (rebuilds trig atoms)"""
    def sub(q):
        out = {}
        for m, c in q.items():
            term = {(): c}
            for a, e in m:
                if a == ('sym', 't'):
                    term = {}
                    break
                if a[0] in ('sin', 'cos'):
                    term = mul(term, poly.ipow(poly.from_term(('call', a[0], (('sym', '__a'),)), {'__a': sub(poly.uncanon(a[1]))}), e))
                else:
                    term = mul(term, {((a, e),): Fraction(1)})
            out = add(out, term)
        return out
    return sub(p)


def check_wall(ctx, prog):
    """fans_sa_steady_wall_bounded: sources == FANS-SA residual of the composite wall-law fields.

    Layered, so that no expression is ever expanded further than needed:
      1. update() is evaluated once; members whose value does not contain a coordinate are constants (frozen as symbols);
      2. u_tau and y_plus are kept as symbols whose derivatives are closed forms *proved by the engine* from their definitions
         (u_tau ~ x^(-1/14): 14 x d(u_tau)/dx + u_tau == 0; y_plus = y u_tau / nu_w);
      3. T is kept as a symbol whose derivative is the chain rule through its definition (computed, not claimed), which keeps
         1/T a monomial instead of the reciprocal of a five-term polynomial;
      4. the closure quantities that the equations use undifferentiated (Omega, Sm, f_w) are symbols in the residual and are
         compared with the Spalart-Allmaras definitions separately;
      5. each of the five sources is compared with the residual operator on the exact fields the API returns."""
    res = {}
    for scalar in cat.SCALARS:
        cls = 'MASA::fans_sa_steady_wall_bounded<%s>' % scalar
        ctx.require(cls in prog.records, '%s not in IR' % cls)
        up = [f for f in prog.methods_of(cls) if f.n == 'update']
        ctx.require(len(up) == 1, 'fans_sa_steady_wall_bounded::update not found')
        up = up[0]
        co = ['x', 'y']
        # ---- 1. constants
        E0 = terms.Evaluator(prog, dyn_class=cls, scalar=scalar)
        o0 = E0.run(up, arg_names=co)
        ctx.require(1 <= len(o0) <= 4, 'update() has %d paths' % len(o0))
        members = set(o0[0].mem)
        for o_ in o0[1:]:
            members &= set(o_.mem)
        # the two instantiations are compared term by term (cheap); the normal-form work is done once, for double
        sig = []
        for eq in ('rho', 'rho_u', 'rho_v', 'rho_e', 'nu'):
            fq = [f for f in prog.methods_of(cls) if f.n == 'eval_q_' + eq and len(f.params) == 2]
            ctx.require(len(fq) == 1, 'fans_sa_steady_wall_bounded::eval_q_%s(x,y) missing' % eq)
            Eq_ = terms.Evaluator(prog, dyn_class=cls, scalar=scalar)
            oq = Eq_.run(fq[0], arg_names=co)
            sig.append(repr([(o_.conds, o_.ret) for o_ in oq]).replace(scalar, 'S'))
        res[scalar] = sig
        if scalar != 'double':
            continue
        const = sorted(m for m in members if not any(set(co) & terms.syms(o_.mem[m]) for o_ in o0) and m not in ('cp',)
                       and terms.syms(o0[0].mem[m]))        # a member that is a plain number (D2vDy2 = 0) keeps its value
        keep = {'u_tau': 'u_tau', 'y_plus': 'yp', 'T': 'T'}
        closure = {'f_w': '@f_w', 'Sm': '@Sm', 'Omega': '@Omega'}
        for need in list(keep) + list(closure) + ['U', 'V', 'RHO', 'NU_SA', 'c_w1', 'd']:
            ctx.require(need in members, 'fans_sa_steady_wall_bounded::update does not assign %s' % need)
        FZ = {c: c for c in const}
        FZ.update(keep)
        FZ.update(closure)
        poly.SYM_RULES = {}
        try:
            # ---- 2. u_tau and y_plus
            Ec = terms.Evaluator(prog, dyn_class=cls, scalar=scalar)
            Ec.freeze = {c: c for c in const}
            oc = Ec.run(up, arg_names=co)
            ut = poly.from_term(oc[0].mem['u_tau'])
            lem = poly.witness(add(mul(poly.scale(S('x'), 14), d(ut, 'x')), ut))
            lem_y = poly.witness(d(ut, 'y'))
            if True:
                ctx.ob('C05.FW-LEMMA', 'u_tau', not lem and not lem_y, up.where, 'u_tau does not satisfy 14 x du_tau/dx + u_tau = 0, du_tau/dy = 0: %s' % poly.fmt(lem or lem_y, 2)[:100],
                       sample='u_tau = u_inf sqrt(c_f/2), c_f ~ Re_x^(-1/7): 14 x d(u_tau)/dx + u_tau == 0')
            rules = {('u_tau', 'x'): mul(poly.const(Fraction(-1, 14)), mul(S('u_tau'), S('x', -1)))}
            poly.SYM_RULES = dict(rules)
            Ey = terms.Evaluator(prog, dyn_class=cls, scalar=scalar)
            Ey.freeze = dict({c: c for c in const}, u_tau='u_tau')
            oy = Ey.run(up, arg_names=co)
            ypd = poly.from_term(oy[0].mem['y_plus'])
            lx = poly.witness(add(mul(poly.scale(S('x'), 14), d(ypd, 'x')), ypd))
            ly = poly.witness(add(mul(S('y'), d(ypd, 'y')), ypd, -1))
            if scalar == 'double':
                ctx.ob('C05.FW-LEMMA', 'y_plus', not lx and not ly, up.where, 'y_plus does not satisfy 14 x dyp/dx + yp = 0, y dyp/dy = yp',
                       sample='y_plus = y u_tau / nu_w: dyp/dx = -yp/(14x), dyp/dy = yp/y')
            rules[('yp', 'x')] = mul(poly.const(Fraction(-1, 14)), mul(S('yp'), S('x', -1)))
            rules[('yp', 'y')] = mul(S('yp'), S('y', -1))
            poly.SYM_RULES = dict(rules)
            # ---- 3. T: chain rule through its definition
            Et = terms.Evaluator(prog, dyn_class=cls, scalar=scalar)
            Et.freeze = {k_: v_ for k_, v_ in FZ.items() if k_ != 'T'}
            ot = Et.run(up, arg_names=co)
            Tdef = poly.from_term(ot[0].mem['T'])
            for c_ in co:
                rules[('T', c_)] = d(Tdef, c_)
            poly.SYM_RULES = dict(rules)
            # ---- 4. closure definitions (members expanded down to the kept symbols; both limiter branches)
            Em = terms.Evaluator(prog, dyn_class=cls, scalar=scalar)
            Em.freeze = {k_: v_ for k_, v_ in FZ.items() if k_ not in closure}
            om = Em.run(up, arg_names=co)
            M = lambda n_, i_=0: poly.from_term(om[i_].mem[n_])
            kap2 = mul(S('kappa'), S('kappa'))
            if scalar == 'double':
                U_, V_ = M('U'), M('V')
                vort = add(d(U_, 'y'), d(V_, 'x'), -1)
                Om = M('Omega')
                rs.compare(ctx, 'C05.FW-CLOSURE', 'wall|Omega^2', mul(Om, Om), mul(vort, vort), up.where, 'Omega^2 vs (dU/dy - dV/dx)^2')
                rho_, nu_ = M('RHO'), M('NU_SA')
                chi = mul(mul(rho_, nu_), S('mu', -1))
                chi3 = poly.ipow(chi, 3)
                fv1 = mul(chi3, inv(add(chi3, poly.ipow(S('c_v1'), 3))))
                fv2 = add(poly.const(1), mul(chi, inv(add(poly.const(1), mul(chi, fv1)))), -1)
                dist = M('d')
                rs.compare(ctx, 'C05.FW-CLOSURE', 'wall|d', dist, S('y'), up.where, 'wall distance d')
                rs.compare(ctx, 'C05.FW-CLOSURE', 'wall|f_v1', M('f_v1'), fv1, up.where, 'f_v1')
                rs.compare(ctx, 'C05.FW-CLOSURE', 'wall|f_v2', M('f_v2'), fv2, up.where, 'f_v2')
                rs.compare(ctx, 'C05.FW-CLOSURE', 'wall|mu_t', M('mu_t'), mul(mul(rho_, nu_), fv1), up.where, 'mu_t = rho nu f_v1')
                Sbar = mul(mul(nu_, fv2), inv(mul(kap2, mul(dist, dist))))
                rs.compare(ctx, 'C05.FW-CLOSURE', 'wall|Sbar', M('Sm_orig'), Sbar, up.where, 'Sbar = nu f_v2/(kappa^2 d^2)')
                # limiter: Sm = Sbar when -cv2 Omega <= Sbar, else Omega (cv2^2 Omega + cv3 Sbar)/((cv3 - 2 cv2) Omega - Sbar)
                # the limiter, however it is written (if/else, ternary): alternatives of Sm with the condition that selects them
                alts = []
                for o_ in om:
                    for cs_, v_ in terms.split_ite(list(o_.conds), o_.mem['Sm']):
                        alts.append((cs_, v_))
                want_c = (poly.neg(mul(S('c_v2'), Om)), M('Sm_orig'))

                def regular_side(cs_):
                    # True when the conditions say -c_v2 Omega <= Sbar, False when they say the opposite, None otherwise
                    for c0 in cs_:
                        neg = False
                        while c0[0] == 'not':
                            neg = not neg
                            c0 = c0[1]
                        if c0[0] != 'cmp' or c0[1] not in ('<', '<=', '>', '>='):
                            continue
                        try:
                            A_, B_ = poly.from_term(c0[2]), poly.from_term(c0[3])
                        except ValueError:
                            continue
                        if poly.equal(A_, want_c[0]) and poly.equal(B_, want_c[1]):
                            return (c0[1] in ('<', '<=')) != neg
                        if poly.equal(B_, want_c[0]) and poly.equal(A_, want_c[1]):
                            return (c0[1] in ('>', '>=')) != neg
                    return None
                sides = [regular_side(cs_) for cs_, v_ in alts]
                okb = len(alts) == 2 and sorted(sides, key=str) == [False, True]
                ctx.ob('C05.FW-CLOSURE', 'wall|S-branch', okb, up.where, 'update() does not select Sm by comparing -c_v2 Omega with Sbar (alternatives: %s)' % sides,
                       sample='Sm = (-c_v2*Omega <= Sbar) ? Sbar : modified')
                if okb:
                    got_reg = poly.from_term([v_ for (cs_, v_), sd in zip(alts, sides) if sd][0])
                    got_mod = poly.from_term([v_ for (cs_, v_), sd in zip(alts, sides) if not sd][0])
                    want_mod = mul(Om, mul(add(mul(mul(S('c_v2'), S('c_v2')), Om), mul(S('c_v3'), M('Sm_orig'))),
                                          inv(add(mul(add(S('c_v3'), poly.scale(S('c_v2'), -2)), Om), M('Sm_orig'), -1))))
                    rs.compare(ctx, 'C05.FW-CLOSURE', 'wall|S-regular', got_reg, M('Sm_orig'), up.where, 'Sm (regular branch)')
                    rs.compare(ctx, 'C05.FW-CLOSURE', 'wall|S-modified', got_mod, want_mod, up.where, 'Sm (negative-S modification)')
                # r, g, f_w, c_w1 as functions of their inputs (inputs kept as symbols)
                Ef = terms.Evaluator(prog, dyn_class=cls, scalar=scalar)
                Ef.freeze = dict({m: m for m in members if m not in ('r', 'g', 'f_w', 'c_w1', 'S_sa')}, Sm='@Sm', Omega='@Omega', NU_SA='@nu', d='@d')
                of = Ef.run(up, arg_names=co)
                Ssym = add(S('@Sm'), S('@Omega'))
                r_want = mul(S('@nu'), inv(mul(mul(Ssym, kap2), mul(S('@d'), S('@d')))))
                rs.compare(ctx, 'C05.FW-CLOSURE', 'wall|r', poly.from_term(of[0].mem['r']), r_want, up.where, 'r = nu/(S kappa^2 d^2), S = Sm + Omega')
                r6 = poly.ipow(r_want, 6)
                g_want = add(r_want, mul(S('c_w2'), add(r6, r_want, -1)))
                rs.compare(ctx, 'C05.FW-CLOSURE', 'wall|g', poly.from_term(of[0].mem['g']), g_want, up.where, 'g = r + c_w2 (r^6 - r)')
                # f_w = g ((1 + c_w3^6)/(g^6 + c_w3^6))^(1/6), with g as an input symbol (g itself is compared above)
                Eg = terms.Evaluator(prog, dyn_class=cls, scalar=scalar)
                Eg.freeze = dict({m: m for m in members if m not in ('f_w',)}, g='@g')
                og = Eg.run(up, arg_names=co)
                g_ = ('sym', '@g')
                cw3_6 = ('call', 'pow', (('sym', 'c_w3'), ('num', Fraction(6))))
                fw_t = ('mul', (g_, ('call', 'pow', (('div', ('add', (('num', Fraction(1)), cw3_6)), ('add', (('call', 'pow', (g_, ('num', Fraction(6)))), cw3_6))),
                                                   ('div', ('num', Fraction(1)), ('num', Fraction(6)))))))
                rs.compare(ctx, 'C05.FW-CLOSURE', 'wall|f_w', poly.from_term(og[0].mem['f_w']), poly.from_term(fw_t), up.where, 'f_w = g ((1 + c_w3^6)/(g^6 + c_w3^6))^(1/6)')
                cw1 = add(mul(S('c_b1'), inv(kap2)), mul(add(poly.const(1), S('c_b2')), inv(S('sigma'))))
                rs.compare(ctx, 'C05.FW-CLOSURE', 'wall|c_w1', poly.from_term(of[0].mem['c_w1']), cw1, up.where, 'c_w1 = c_b1/kappa^2 + (1 + c_b2)/sigma')
            # ---- 5. the five sources
            def ev(name):
                return rs.evaluator_poly(prog, cls, scalar, name, co, freeze=FZ, want_trace=True)
            F = {}
            for f_ in ('rho', 'u', 'v', 'p', 'nu'):
                F[f_], fnf, _ = ev('eval_exact_' + f_)
                ctx.require(F[f_] is not None, 'fans_sa_steady_wall_bounded::eval_exact_%s missing' % f_)
            Rr = fans_oracle(co, None, F=F, wall=(S('y'), S('@f_w'), S('c_w1')), S_override=add(S('@Sm'), S('@Omega')))
            for eq in ('rho', 'rho_u', 'rho_v', 'rho_e', 'nu'):
                Q, fn, tr = ev('eval_q_' + eq)
                ctx.require(Q is not None, 'fans_sa_steady_wall_bounded::eval_q_%s missing' % eq)
                rs.compare(ctx, 'C05.FW-RES', 'fans_sa_steady_wall_bounded|%s' % eq, Q, Rr[eq], fn.where, 'fans_sa_steady_wall_bounded::eval_q_%s(x,y)' % eq)
        except rs.Inconclusive as ex:
            raise AnalysisBroken(str(ex))
        finally:
            poly.SYM_RULES = {}
    ctx.ob('C05.UNI', 'fans_sa_steady_wall_bounded', res['double'] == res['long double'], '', 'wall bounded: instantiations differ', sample='5 sources identical in both instantiations')


def run(ctx, prog):
    ctx.rule('C05.RANS-DERIV', 'rans_sa: du, d2u, dnu, d2nu and dvt are the table derivatives (as functions of position) of u, nu and nu*f_v1(chi)')
    ctx.rule('C05.RANS-CLOSURE', 'rans_sa: each closure helper (chi, f_v1, f_v2, nu_t, c_w1, g, f_w, production, destruction, S with the negative-S modification, r with its limiter) equals the Spalart-Allmaras definition of its inputs')
    ctx.rule('C05.RANS-EQN', 'rans_sa: eval_q_u = u\'\'/Re_tau + (nu_t u\')\' + 1; transport = (1/sigma)[((1/Re_tau + nu) nu\')\' + c_b2 nu\'^2]; eval_q_v = production - destruction + transport; exact fields are u and nu')
    ctx.rule('C05.FS-COPIES', 'free shear: every source term uses the same expression for each of RHO, U, V, P, NU_SA')
    ctx.rule('C05.FS-STEADY', 'free shear: every two-argument evaluator equals its three-argument form with t replaced by 0')
    ctx.rule('C05.FS-FIELDS', 'free shear: the exact fields the API returns are the fields the sources differentiate')
    ctx.rule('C05.FS-RES', 'free shear: each source equals the FANS-SA residual (mu_t = rho nu f_v1(chi) differentiated as a function of position; SA production c_b1 |omega| rho nu, '
             'conservative diffusion and c_b2 gradient-squared terms) on those fields')
    ctx.rule('C05.UNI', 'both instantiations give the same normal forms')
    ctx.explanation = ('Canonical normal-form equality. rans_sa is verified helper by helper against the SA definitions and the derivative table. For the free-shear solution the fields are kept as jet '
                       'symbols (their local copies are proved identical in all sources) and derivative jets are replaced by table derivatives. Continuity and the SA equation are proved; '
                       'the momentum and energy sources are definitely different from the residual because f_v1(chi) is treated as a constant under differentiation (confirmed: with that '
                       'hypothesis the momentum sources match exactly) - known findings. fans_sa_steady_wall_bounded: decided in layers - constants frozen, u_tau and y_plus as symbols with engine-proved derivative rules, T as a symbol '
                       'with its chain-rule derivative, closure quantities compared separately; all five sources equal the residual.')
    ctx.rule('C05.FW-LEMMA', 'wall bounded: u_tau = u_inf sqrt(c_f/2) with c_f ~ Re_x^(-1/7) satisfies 14 x du_tau/dx + u_tau = 0 and y_plus = y u_tau/nu_w the corresponding relations '
             '(decided by the engine from update(); they are then used as derivative rules for the two symbols)')
    ctx.rule('C05.FW-CLOSURE', 'wall bounded: Omega^2 = (dU/dy - dV/dx)^2, wall distance, f_v1, f_v2, mu_t, Sbar, the negative-S limiter, r, g, f_w, c_w1 equal the Spalart-Allmaras definitions')
    ctx.rule('C05.FW-RES', 'wall bounded: each of the five sources equals the steady FANS-SA residual (wall destruction term included) of the exact fields the API returns')
    check_rans(ctx, prog)
    check_free_shear(ctx, prog)
    check_wall(ctx, prog)
    ctx.trusted = ['clang 14 front end', 'tools/masa-ir', 'sa/terms.py', 'sa/poly.py', 'the SA definitions and the FANS-SA operator in sa/checks/c05.py']
