"""C11 - parameter store (DESIGN 2, C11)."""
from fractions import Fraction
from .. import terms, nf
from .. import catalogue as cat
from .. import api, loops
from ..ast import whole_container_traversal, strip, flat_stmts, calls, nodes, is_param, is_local, is_this_member, full_container_loop, assigned_in, show, int_value
from ..ir import walk
from ..report import AnalysisBroken

LEVEL = 'other'


def find_of(t, mapname, key):
    """t is M.find(key) on member map `mapname` with key the entry function's parameter symbol"""
    return t[0] == 'mcall' and t[1] == ('sym', mapname) and t[2] == 'find' and len(t[3]) == 1 and t[3][0] == ('sym', key)


def mapped_index(t, mapname, key=None, loopvar=False):
    """t is `(*it).second` / `it->second` with it = mapname.find(key) (or the loop iterator over mapname)"""
    if t[0] != 'field' or t[2] != 'second':
        return False
    b = t[1]
    if not (b[0] == 'call' and b[1] in ('op:operator*', 'op:operator->') and len(b[2]) == 1):
        return False
    it = b[2][0]
    if loopvar:
        # loopvar(M.begin(), @loop:it)
        if it[0] == 'call' and it[1] == 'loopvar':
            it = it[2][0]
        return it[0] == 'mcall' and it[1] == ('sym', mapname) and it[2] in ('begin', 'cbegin')
    return find_of(it, mapname, key)


def not_found_cond(c, mapname, key):
    """c is `M.find(key) == M.end()`"""
    if c[0] == 'call' and c[1] == 'op:operator==' and len(c[2]) == 2:
        a, b = c[2]
        if find_of(a, mapname, key) and b[0] == 'mcall' and b[1] == ('sym', mapname) and b[2] in ('end', 'cend'):
            return True
    return False


def run(ctx, prog):
    ctx.rule('C11.S1', 'set_var/get_var (set_vec/get_vec) look the name up with map.find(name) and access *array[found->second]; on the not-found path set performs no store and '
             'returns non-zero, get_var returns the literal -20 (get_vec non-zero); on the found path set stores exactly the value argument and returns 0')
    ctx.rule('C11.S2', 'registration is injective and name-true in every catalogue class: distinct literal names, distinct members, and the member registered under "X" is the member named X')
    ctx.rule('C11.S2b', 'register_var/register_vec append the address at index num_* after incrementing it and store that index in the map, so name -> slot -> address agree')
    ctx.rule('C11.S4', 'purge_var stores the marker through vararr[it->second] for every entry of varmap; sanity_check counts exactly the marker test per scalar and the size()==0 test per vector over the whole maps and returns non-zero iff the count is non-zero')
    ctx.rule('C11.S5', 'num_vars and num_vec are assigned in the base constructor before any registration')
    ctx.rule('C11.S3', 'defaults are complete, constant and valid (evaluated by C14.K4 on the same tree; re-checked here per class)')
    ctx.explanation = ('The store is a name->slot map plus a slot->address array; the rules check that reader and writer use the same lookup and slot, that registration makes '
                       'name, slot and member agree in every class, and that purge/sanity range over everything. Together with C10.P1 (evaluators read members, never the maps) '
                       'this gives the per-handle map behaviour for every operation sequence; std::map/std::vector semantics are trusted.')
    for scalar in cat.SCALARS:
        sc = 'ld' if scalar == 'long double' else 'd'
        B = cat.BASE % scalar

        def paths(name):
            f = prog.find_method(B, name)
            ctx.require(len(f) == 1, '%s::%s not found' % (B, name))
            E = terms.Evaluator(prog, scalar=scalar, noreturn=('masa_exit',), opaque=('return_name',))
            E.unroll_paths = True                       # helpers with several returns continue the caller once per path
            E.assume_nonnull = ('vararr', 'vecarr')     # registered addresses are member addresses (S2b, C12.H3)
            outs = E.run(f[0])
            return f[0], outs, E
        # ---- S1 scalars: every path is classified by what its condition says about the name being registered
        from ..ownership import lookup_fact

        def lookup_state(o, mp, key):
            fs = [lookup_fact(c, mp) for c in o.conds]
            st = set(f_[1] for f_ in fs if f_ is not None and f_[0] == ('sym', key))
            return None if len(st) != 1 else st.pop()
        for fn_name, arr, mp in (('set_var', 'vararr', 'varmap'), ('set_vec', 'vecarr', 'vecmap')):
            f, outs, E = paths(fn_name)
            key = f.params[0]['n']
            val = f.params[1]['n']
            probs = []
            seen = set()
            for o in outs:
                if o.kind == 'exit':
                    probs.append('a path ends in masa_exit')
                    continue
                st_ = lookup_state(o, mp, key)
                seen.add(st_)
                stores = [e for e in api.flat(o.events) if e[0] in ('write', 'write-through', 'store')]
                if st_ is None:
                    probs.append('a path returns %s without consulting %s.find(%s) (conditions %s)' % (terms.fmt(o.ret)[:30] if o.ret else None, mp, key, [terms.fmt(c)[:50] for c in o.conds][:2]))
                elif st_ is False:
                    if stores:
                        probs.append('the not-registered path stores to %s' % (terms.fmt(stores[0][1])[:60] if isinstance(stores[0][1], tuple) else str(stores[0][1])))
                    elif not (o.ret and o.ret[0] == 'num' and o.ret[1] != 0):
                        probs.append('the not-registered path returns %s, expected non-zero' % (terms.fmt(o.ret) if o.ret else None))
                else:
                    good = len(stores) == 1 and stores[0][0] == 'write-through' and stores[0][1][0] == 'elem' and stores[0][1][1] == ('sym', arr) and mapped_index(stores[0][1][2], mp, key)
                    if not good:
                        probs.append('the registered path does not perform exactly one store through %s[found->second] (stores: %s)' % (
                            arr, [terms.fmt(e[1])[:50] if isinstance(e[1], tuple) else e[1] for e in stores]))
                    elif len(stores[0]) < 4 or stores[0][3] != ('sym', val):
                        probs.append('the stored value is `%s`, expected the parameter `%s` unchanged' % (terms.fmt(stores[0][3])[:60] if len(stores[0]) > 3 else '?', val))
                    elif not (o.ret and o.ret == terms.num(0)):
                        probs.append('the registered path returns %s, expected 0' % (terms.fmt(o.ret) if o.ret else None))
            if not probs and seen != {True, False}:
                probs.append('does not split on %s.find(%s) == %s.end()' % (mp, key, mp))
            ctx.ob('C11.S1', '%s|%s' % (fn_name, sc), not probs, f.where, '%s: %s' % (fn_name, '; '.join(probs[:2])), sample='%s: find -> *%s[it->second] = %s / return 1' % (fn_name, arr, val))
        f, outs, E = paths('get_var')
        key = f.params[0]['n']
        probs = []
        seen = set()
        for o in outs:
            if o.kind == 'exit':
                probs.append('a path ends in masa_exit')
                continue
            st_ = lookup_state(o, 'varmap', key)
            seen.add(st_)
            if any(e[0] in ('write', 'write-through', 'store') for e in api.flat(o.events)):
                probs.append('get_var stores')
            elif st_ is None:
                probs.append('a path returns `%s` without consulting varmap.find(%s) (conditions %s): the value does not come from the current object\'s store' % (
                    terms.fmt(o.ret)[:40] if o.ret else None, key, [terms.fmt(c)[:50] for c in o.conds][:2]))
            elif st_ is False:
                p_ = nf.nf(o.ret) if o.ret else {}
                if p_ != nf.const_poly(-20):
                    probs.append('unknown name returns %s, expected -20' % (terms.fmt(o.ret) if o.ret else None))
            else:
                r = o.ret
                good = r and r[0] == 'deref' and r[1][0] == 'elem' and r[1][1] == ('sym', 'vararr') and mapped_index(r[1][2], 'varmap', key)
                if not good:
                    probs.append('registered name returns %s, expected *vararr[found->second]' % (terms.fmt(r)[:60] if r else None))
        if not probs and seen != {True, False}:
            probs.append('does not split on varmap.find(name) == end()')
        ctx.ob('C11.S1', 'get_var|' + sc, not probs, f.where, 'get_var: ' + '; '.join(probs[:2]), sample='get_var: find -> return *vararr[it->second] / return -20')
        f, outs, E = paths('get_vec')
        key = f.params[0]['n']
        ok, why = len(outs) == 2, 'does not split on vecmap.find(name) == end()'
        for o in outs:
            if not ok:
                break
            if o.conds and not_found_cond(o.conds[0], 'vecmap', key):
                if any(e[0] in ('write', 'write-through') for e in o.events) or (f.params[1]['n'], ) == ():
                    ok, why = False, 'not-found path modifies the output'
                if not (o.ret and o.ret[0] == 'num' and o.ret[1] != 0):
                    ok, why = False, 'not-found path returns %s' % (terms.fmt(o.ret) if o.ret else None)
            else:
                if not (o.ret == terms.num(0)):
                    ok, why = False, 'found path returns %s' % (terms.fmt(o.ret) if o.ret else None)
        # whole-vector assignment vec = *vecarr[sel->second]
        asg = [c for c in calls(f.body, name='operator=') if c.get('opcall') and is_param(c['args'][0], 1)]
        if ok and not (len(asg) == 1 and 'std::vector' in str(asg[0].get('t', ''))):
            ok, why = False, 'output vector is not assigned as a whole (length changes would be lost)'
        ctx.ob('C11.S1', 'get_vec|' + sc, ok, f.where, 'get_vec: ' + why, sample='get_vec: vec = *vecarr[it->second]')

        # ---- S2b registration bookkeeping (per path; the success path is the one that returns 0)
        for fn_name, cnt, mp, arr in (('register_var', 'num_vars', 'varmap', 'vararr'), ('register_vec', 'num_vec', 'vecmap', 'vecarr')):
            f, outs, E = paths(fn_name)
            key = ('sym', f.params[0]['n'])
            okp = [o for o in outs if o.ret == terms.num(0)]
            ok, why = len(okp) == 1, 'no unique success path'
            if ok:
                o = okp[0]
                cv = o.mem.get(cnt)
                newcnt = ('add', (('sym', cnt), terms.num(1)))
                pushes = [c for c in E.trace.obj_calls if c[0] == arr and c[1] == 'push_back']
                want = ('sym', f.params[1]['n'])
                if cv != newcnt:
                    ok, why = False, '%s is not incremented by exactly one on the success path (becomes %s)' % (cnt, terms.fmt(cv)[:40] if cv else 'unchanged')
                elif not (len(pushes) == 1 and pushes[0][2] and (pushes[0][2][0] == want or pushes[0][2][0] == ('addr', want))):
                    ok, why = False, '%s.push_back does not receive the registered address' % arr
                else:
                    # the map entry of the name must hold the new counter value
                    mv = o.mem.get(mp)
                    evs = api.flat(o.events)
                    direct = mv is not None and mv[0] == 'call' and mv[1] == 'elemstore' and mv[2][1] == key and mv[2][2] in (newcnt, cv)
                    via_insert = False
                    wrong = None
                    for e in evs:
                        if e[0] == 'store' and e[1][0][0] == 'field' and e[1][0][2] == 'second' and mp in terms.fmt(e[1][0]):
                            if e[1][1] in (newcnt, cv) and terms.fmt(key) in terms.fmt(e[1][0]):
                                via_insert = True
                            else:
                                wrong = 'the map entry is set to `%s`' % terms.fmt(e[1][1])[:40]
                    if mv is not None and mv[0] == 'call' and mv[1] == 'elemstore' and not direct:
                        wrong = '%s[%s] is set to `%s`, not the incremented %s' % (mp, terms.fmt(mv[2][1])[:20], terms.fmt(mv[2][2])[:40], cnt)
                    if wrong:
                        ok, why = False, wrong
                    elif not (direct or via_insert):
                        ok, why = None, 'the map entry is written by an idiom outside the recognised ones: not decided'
            ctx.ob('C11.S2b', '%s|%s' % (fn_name, sc), ok, f.where, '%s: %s' % (fn_name, why), sample='%s: ++%s; %s[name]=%s; %s.push_back(addr)' % (fn_name, cnt, mp, cnt, arr))

        # ---- S4 purge / sanity: read off the loop summaries (sa/loops.py)
        f = prog.find_method(B, 'purge_var')[0]
        E = terms.Evaluator(prog, scalar=scalar, noreturn=('masa_exit',))
        outs = [o for o in E.run(f) if o.kind != 'exit']
        probs = []
        undecided_purge = False
        if len(outs) != 1:
            probs.append('%d returning paths' % len(outs))
        else:
            tr = loops.traversals(outs[0].events, 'varmap')
            full = [t for t in tr if t[0]]
            if not full:
                if tr:
                    probs.append(tr[0][1])
                else:
                    undecided_purge = True
            for ok_, why_, ev, itn in full[:1]:
                for kind, conds, evs, dl in loops.body_paths(ev):
                    if kind == 'exit':
                        continue
                    st = [x for x in evs if x[0] in ('write', 'write-through', 'store')]
                    good = len(st) == 1 and st[0][0] == 'write-through' and st[0][1][0] == 'elem' and st[0][1][1] == ('sym', 'vararr') and mapped_index(st[0][1][2], 'varmap', loopvar=True)
                    if not good:
                        probs.append('a path through the loop body%s does not store through vararr[it->second] exactly once' % (' (under %s)' % terms.fmt(conds[0])[:50] if conds else ''))
                    elif len(st[0]) < 4 or st[0][3] != ('sym', 'const:MASA_VAR_DEFAULT'):
                        probs.append('the stored value is `%s`, not MASA_VAR_DEFAULT' % (terms.fmt(st[0][3])[:50] if len(st[0]) > 3 else '?'))
        ctx.ob('C11.S4', 'purge_var|' + sc, (not probs) if (probs or not undecided_purge) else None, f.where,
               'purge_var: ' + ('; '.join(probs[:2]) or 'varmap is walked by an idiom outside the recognised ones (no loop in the repository code): not decided'),
               sample='for it in varmap: *vararr[it->second] = MASA_VAR_DEFAULT')
        f = prog.find_method(B, 'sanity_check')[0]
        E = terms.Evaluator(prog, scalar=scalar, noreturn=('masa_exit',))
        outs = [o for o in E.run(f) if o.kind == 'ret']
        probs = []
        if not outs:
            probs.append('no returning path')
        undecided_sanity = False
        for o in outs[:1]:
            flags = set()
            for mp, arr in (('varmap', 'vararr'), ('vecmap', 'vecarr')):
                tr = loops.traversals(o.events, mp)
                full = [t for t in tr if t[0]]
                if not full:
                    if tr:
                        probs.append(tr[0][1])
                    else:
                        undecided_sanity = True
                    continue
                for kind, conds, evs, dl in loops.body_paths(full[0][2]):
                    if kind == 'exit':
                        continue
                    incs = [k_ for k_, v_ in dl.items() if v_[0] == 'add' and len(v_[1]) == 2 and v_[1][1] == terms.num(1) and v_[1][0][0] == 'call' and v_[1][0][1] == 'loopvar']
                    incs = [k_ for k_ in incs if k_ != full[0][3]]
                    flags |= set(incs)
                    test = None
                    for c in conds:
                        neg = False
                        while c[0] == 'not':
                            neg = not neg
                            c = c[1]
                        if mp == 'varmap':
                            sy = terms.syms(c)
                            if 'const:MASA_VAR_DEFAULT' in sy and arr in sy and c[0] == 'cmp' and c[1] in ('<', '<=', '>', '>='):
                                lhs_abs = c[2][0] == 'call' and c[2][1] in ('abs', 'fabs')
                                rhs_abs = c[3][0] == 'call' and c[3][1] in ('abs', 'fabs')
                                if lhs_abs != rhs_abs:
                                    close = (c[1] in ('<', '<=')) == lhs_abs
                                    test = close != neg
                        else:
                            if c[0] == 'mcall' and c[2] == 'empty' and arr in terms.syms(c):
                                test = not neg
                            elif c[0] == 'cmp' and c[1] in ('==', '!=') and arr in terms.syms(c) and any(x[0] == 'size' for x in terms.subterms(c)) and terms.num(0) in (c[2], c[3]):
                                test = (c[1] == '==') != neg
                    if test is None:
                        probs.append('a path through the %s loop is not decided by the %s test' % (mp, 'marker' if mp == 'varmap' else 'empty-vector'))
                    elif bool(incs) != test:
                        probs.append('the %s loop %s the counter when the %s' % (mp, 'increments' if incs else 'does not increment',
                                                                                  ('value is the marker' if test else 'value differs from the marker') if mp == 'varmap' else ('vector is empty' if test else 'vector is not empty')))
            if not probs and len(flags) != 1 and not undecided_sanity:
                probs.append('the two loops count into %s' % (sorted(flags) or 'nothing'))
            if not probs and not undecided_sanity:
                flag = '@loop:' + sorted(flags)[0]
                for cs2, r2 in terms.split_ite(o.conds, o.ret):
                    verdict = None
                    for c in cs2:
                        neg = False
                        while c[0] == 'not':
                            neg = not neg
                            c = c[1]
                        if c[0] == 'cmp' and c[1] in ('!=', '>', '==') and flag in terms.syms(c) and terms.num(0) in (c[2], c[3]):
                            verdict = (c[1] != '==') != neg
                    if verdict is None:
                        probs.append('the return value `%s` does not depend on the counter' % terms.fmt(r2)[:40])
                    elif verdict and not (r2[0] == 'num' and r2[1] != 0):
                        probs.append('returns `%s` when the counter is non-zero' % terms.fmt(r2)[:40])
                    elif not verdict and r2 != terms.num(0):
                        probs.append('returns `%s` when the counter is zero' % terms.fmt(r2)[:40])
        ctx.ob('C11.S4', 'sanity_check|' + sc, (not probs) if (probs or not undecided_sanity) else None, f.where,
               'sanity_check: ' + ('; '.join(probs[:2]) or 'the maps are walked by an idiom outside the recognised ones: not decided'),
               sample='flag counts marker scalars and empty vectors over both maps; return flag != 0')

        # ---- S5
        ctor = [f for f in prog.methods_of(B) if f.get('ctor')]
        ctx.require(len(ctor) >= 1, 'base constructor not found')
        for cnt in ('num_vars', 'num_vec'):
            assigned = False
            for c in ctor:
                if any(i.get('member') == cnt for i in c.inits if i.get('written')):
                    assigned = True
                for n in walk(c.body):
                    if n.get('k') == 'bin' and n['op'] == '=' and is_this_member(n['a'], cnt):
                        assigned = True
            fld = [x for x in prog.records[B]['fields'] if x['n'] == cnt]
            ctx.ob('C11.S5', '%s|%s' % (cnt, sc), assigned, (fld[0]['l'] if fld else ctor[0].where),
                   '%s is incremented and used as a slot index by register_%s but never initialised by the constructor' % (cnt, 'var' if cnt == 'num_vars' else 'vec'),
                   sample='%s = 0 in the constructor' % cnt)

        # ---- S2 per class
        fn, ents, other = cat.entries(prog, scalar)
        n_regs = 0
        for cls, _, _ in ents:
            short = cat.short(cls)
            regs = cat.registrations(prog, cls)
            if not regs:
                continue
            names = [r['name'] for r in regs]
            paths_ = ['.'.join(r['path']) if r['path'] else None for r in regs]
            n_regs += len(regs)
            if short in cat.FIXTURES:
                continue
            dupn = sorted(set(n for n in names if names.count(n) > 1))
            dupp = sorted(set(p for p in paths_ if paths_.count(p) > 1))
            named = [n for n in names if n is not None]
            dupn = sorted(set(n for n in named if named.count(n) > 1))
            ctx.ob('C11.S2', '%s|injective|%s' % (short, sc), not dupn and not dupp and None not in paths_, regs[0]['where'] if regs and 'where' in regs[0] else '',
                   '%s registers names %s / members %s more than once (or a non-literal name / non-member address)' % (short, dupn, dupp), sample='%s: %d names, %d members' % (short, len(set(names)), len(set(paths_))))
            for r in regs:
                if r['name'] is None:
                    # name assembled at run time (power-law foreach_parameter): injectivity of the addresses is checked above
                    ctx.ob('C11.S2', '%s|member-address|%s|%s' % (short, '.'.join(r['path'][1:]) if r['path'] else '?', sc), r['path'] is not None, r.get('where') or '',
                           '%s registers storage that is not a member of the instance' % short, nontrivial=False)
                    continue
                want = r['name']
                got = r['path'][-1] if r['path'] else None
                ok = r['path'] is not None and (r['path'][0] == 'this') and got == want
                ctx.ob('C11.S2', '%s|name-true|%s|%s' % (short, r['name'], sc), ok, r.get('where') or (r['node'].get('l') if r.get('node') else ''),
                       '%s registers member `%s` under the name "%s": masa_set_param("%s") would change a member the evaluators do not read as %s' % (
                           short, '.'.join(r['path'][1:]) if r['path'] else '?', r['name'], r['name'], r['name']),
                       sample='%s."%s" -> &%s' % (short, r['name'], '.'.join(r['path'][1:]) if r['path'] else '?'))
        ctx.floor('registered_parameters<%s>' % scalar, n_regs, 700)
    # ---- S3: defaults complete, constant, valid and fully redefined by init_var (C14.K4 evaluated on the same tree)
    from ..report import Ctx
    from . import c14
    sub = Ctx('C14', ctx.tier)
    c14.run(sub, prog)
    k4 = sub.rule_counts.get('C14.K4', [0, 0])
    bad = [v for v in sub.violations if v['rule'] == 'C14.K4']
    for v in bad:
        ctx.ob('C11.S3', v['key'], False, v['where'], v['msg'])
    ctx.ob('C11.S3', 'all-defaults', not bad, '', '%d default obligations fail' % len(bad), sample='%d default obligations of C14.K4 discharged (masa_init_param restores every scalar and vector parameter)' % k4[1])
    ctx.floor('default_obligations', k4[0], 1500)


