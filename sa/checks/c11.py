"""C11 - parameter store (DESIGN 2, C11)."""
from fractions import Fraction
from .. import terms, nf
from .. import catalogue as cat
from ..ast import strip, flat_stmts, calls, nodes, is_param, is_local, is_this_member, full_container_loop, assigned_in, show, int_value
from ..ir import walk
from ..report import AnalysisBroken

LEVEL = 'other'


def find_of(t, mapname, key):
    """t is M.find(key) on member map `mapname` with key the entry function's parameter symbol"""
    return t[0] == 'mcall' and t[1] == ('sym', mapname) and t[2] == 'find' and len(t[3]) == 1 and t[3][0] == ('sym', key)


def mapped_index(t, mapname, key=None, loopvar=False):
    """t is `(*it).second` / `it->second` with it = mapname.find(key) (or the loop iterator over mapname)"""
    if t[0] != 'field' or t[2] != 'second':
        return False
    b = t[1]
    if not (b[0] == 'call' and b[1] in ('op:operator*', 'op:operator->') and len(b[2]) == 1):
        return False
    it = b[2][0]
    if loopvar:
        # loopvar(M.begin(), @loop:it)
        if it[0] == 'call' and it[1] == 'loopvar':
            it = it[2][0]
        return it[0] == 'mcall' and it[1] == ('sym', mapname) and it[2] in ('begin', 'cbegin')
    return find_of(it, mapname, key)


def not_found_cond(c, mapname, key):
    """c is `M.find(key) == M.end()`"""
    if c[0] == 'call' and c[1] == 'op:operator==' and len(c[2]) == 2:
        a, b = c[2]
        if find_of(a, mapname, key) and b[0] == 'mcall' and b[1] == ('sym', mapname) and b[2] in ('end', 'cend'):
            return True
    return False


def run(ctx, prog):
    ctx.rule('C11.S1', 'set_var/get_var (set_vec/get_vec) look the name up with map.find(name) and access *array[found->second]; on the not-found path set performs no store and '
             'returns non-zero, get_var returns the literal -20 (get_vec non-zero); on the found path set stores exactly the value argument and returns 0')
    ctx.rule('C11.S2', 'registration is injective and name-true in every catalogue class: distinct literal names, distinct members, and the member registered under "X" is the member named X')
    ctx.rule('C11.S2b', 'register_var/register_vec append the address at index num_* after incrementing it and store that index in the map, so name -> slot -> address agree')
    ctx.rule('C11.S4', 'purge_var stores the marker through vararr[it->second] for every entry of varmap; sanity_check counts exactly the marker test per scalar and the size()==0 test per vector over the whole maps and returns non-zero iff the count is non-zero')
    ctx.rule('C11.S5', 'num_vars and num_vec are assigned in the base constructor before any registration')
    ctx.rule('C11.S3', 'defaults are complete, constant and valid (evaluated by C14.K4 on the same tree; re-checked here per class)')
    ctx.explanation = ('The store is a name->slot map plus a slot->address array; the rules check that reader and writer use the same lookup and slot, that registration makes '
                       'name, slot and member agree in every class, and that purge/sanity range over everything. Together with C10.P1 (evaluators read members, never the maps) '
                       'this gives the per-handle map behaviour for every operation sequence; std::map/std::vector semantics are trusted.')
    for scalar in cat.SCALARS:
        sc = 'ld' if scalar == 'long double' else 'd'
        B = cat.BASE % scalar

        def paths(name):
            f = prog.find_method(B, name)
            ctx.require(len(f) == 1, '%s::%s not found' % (B, name))
            E = terms.Evaluator(prog, scalar=scalar, noreturn=('masa_exit',), opaque=('return_name',))
            outs = E.run(f[0])
            return f[0], outs, E
        # ---- S1 scalars
        for fn_name, arr, mp in (('set_var', 'vararr', 'varmap'), ('set_vec', 'vecarr', 'vecmap')):
            f, outs, E = paths(fn_name)
            key = f.params[0]['n']
            val = f.params[1]['n']
            nf_paths = [o for o in outs if o.conds and not_found_cond(o.conds[0], mp, key)]
            f_paths = [o for o in outs if o.conds and o.conds[0][0] == 'not' and not_found_cond(o.conds[0][1], mp, key)]
            ok = len(nf_paths) == 1 and len(f_paths) == 1 and len(outs) == 2
            why = 'does not split on %s.find(%s) == %s.end()' % (mp, key, mp)
            if ok:
                o = nf_paths[0]
                st = [e for e in o.events if e[0] in ('write', 'write-through')]
                if st:
                    ok, why = False, 'not-found path stores to %s' % terms.fmt(st[0][1])[:60] if isinstance(st[0][1], tuple) else str(st[0][1])
                elif not (o.ret and o.ret[0] == 'num' and o.ret[1] != 0):
                    ok, why = False, 'not-found path returns %s, expected non-zero' % (terms.fmt(o.ret) if o.ret else None)
            if ok:
                o = f_paths[0]
                st = [e for e in o.events if e[0] in ('write', 'write-through')]
                good = len(st) == 1 and st[0][0] == 'write-through' and st[0][1][0] == 'elem' and st[0][1][1] == ('sym', arr) and \
                    mapped_index(st[0][1][2], mp, key)
                if not good:
                    ok, why = False, 'found path does not perform exactly one store through %s[found->second] (events: %s)' % (
                        arr, [terms.fmt(e[1])[:50] if isinstance(e[1], tuple) else e[1] for e in st])
                elif not (o.ret and o.ret == terms.num(0)):
                    ok, why = False, 'found path returns %s, expected 0' % terms.fmt(o.ret)
            # the stored value: check on IR that the rhs is the value parameter unchanged
            if ok:
                stored = None
                for n in walk(f.body):
                    if n.get('k') == 'bin' and n['op'] == '=' and strip(n['a'], casts=True).get('k') == 'un':
                        stored = n['b']
                    if n.get('k') == 'call' and n.get('opcall') and n.get('n') == 'operator=' and strip(n['args'][0], casts=True).get('k') == 'un':
                        stored = n['args'][1]
                if stored is None or not is_param(strip(stored, casts=True), 1):
                    ok, why = False, 'stored value is `%s`, expected the parameter `%s` unchanged' % (show(stored) if stored else None, val)
            ctx.ob('C11.S1', '%s|%s' % (fn_name, sc), ok, f.where, '%s: %s' % (fn_name, why), sample='%s: find -> *%s[it->second] = %s / return 1' % (fn_name, arr, val))
        f, outs, E = paths('get_var')
        key = f.params[0]['n']
        ok, why = len(outs) == 2, 'does not split on varmap.find(name) == end()'
        for o in outs:
            if not ok:
                break
            if any(e[0] in ('write', 'write-through') for e in o.events):
                ok, why = False, 'get_var stores'
            elif o.conds and not_found_cond(o.conds[0], 'varmap', key):
                p = nf.nf(o.ret) if o.ret else {}
                if p != nf.const_poly(-20):
                    ok, why = False, 'unknown name returns %s, expected -20' % (terms.fmt(o.ret) if o.ret else None)
            elif o.conds and o.conds[0][0] == 'not' and not_found_cond(o.conds[0][1], 'varmap', key):
                r = o.ret
                good = r and r[0] == 'deref' and r[1][0] == 'elem' and r[1][1] == ('sym', 'vararr') and mapped_index(r[1][2], 'varmap', key)
                if not good:
                    ok, why = False, 'found path returns %s, expected *vararr[found->second]' % (terms.fmt(r) if r else None)
            else:
                ok, why = False, 'unexpected path condition %s' % [terms.fmt(c)[:60] for c in o.conds]
        ctx.ob('C11.S1', 'get_var|' + sc, ok, f.where, 'get_var: ' + why, sample='get_var: find -> return *vararr[it->second] / return -20')
        f, outs, E = paths('get_vec')
        key = f.params[0]['n']
        ok, why = len(outs) == 2, 'does not split on vecmap.find(name) == end()'
        for o in outs:
            if not ok:
                break
            if o.conds and not_found_cond(o.conds[0], 'vecmap', key):
                if any(e[0] in ('write', 'write-through') for e in o.events) or (f.params[1]['n'], ) == ():
                    ok, why = False, 'not-found path modifies the output'
                if not (o.ret and o.ret[0] == 'num' and o.ret[1] != 0):
                    ok, why = False, 'not-found path returns %s' % (terms.fmt(o.ret) if o.ret else None)
            else:
                if not (o.ret == terms.num(0)):
                    ok, why = False, 'found path returns %s' % (terms.fmt(o.ret) if o.ret else None)
        # whole-vector assignment vec = *vecarr[sel->second]
        asg = [c for c in calls(f.body, name='operator=') if c.get('opcall') and is_param(c['args'][0], 1)]
        if ok and not (len(asg) == 1 and 'std::vector' in str(asg[0].get('t', ''))):
            ok, why = False, 'output vector is not assigned as a whole (length changes would be lost)'
        ctx.ob('C11.S1', 'get_vec|' + sc, ok, f.where, 'get_vec: ' + why, sample='get_vec: vec = *vecarr[it->second]')

        # ---- S2b registration bookkeeping
        for fn_name, cnt, mp, arr in (('register_var', 'num_vars', 'varmap', 'vararr'), ('register_vec', 'num_vec', 'vecmap', 'vecarr')):
            f, outs, E = paths(fn_name)
            key = f.params[0]['n']
            okp = [o for o in outs if o.ret == terms.num(0)]
            ok, why = len(okp) == 1, 'no unique success path'
            if ok:
                o = okp[0]
                w = [e for e in o.events if e[0] == 'write']
                order = [e[1] for e in w]
                if order[:2] != [cnt, mp] or arr not in order:
                    ok, why = False, 'success path writes %s; expected %s++, %s[name]=%s, %s.push_back(address)' % (order, cnt, mp, cnt, arr)
                else:
                    # map value is the incremented counter, pushed address is the parameter
                    mv = o.mem.get(mp)
                    cv = o.mem.get(cnt)
                    if not (cv == ('add', (('sym', cnt), terms.num(1)))):
                        ok, why = False, '%s is not incremented by exactly one' % cnt
                    pushes = [c for c in E.trace.obj_calls if c[0] == arr and c[1] == 'push_back']
                    want = ('sym', f.params[1]['n'])
                    if ok and not (len(pushes) == 1 and pushes[0][2] and (pushes[0][2][0] == want or pushes[0][2][0] == ('addr', want))):
                        ok, why = False, '%s.push_back does not receive the registered address' % arr
            ctx.ob('C11.S2b', '%s|%s' % (fn_name, sc), ok, f.where, '%s: %s' % (fn_name, why), sample='%s: ++%s; %s[name]=%s; %s.push_back(addr)' % (fn_name, cnt, mp, cnt, arr))

        # ---- S4 purge / sanity
        f = prog.find_method(B, 'purge_var')[0]
        loops = [l for l in nodes(f.body, 'for')]
        ok, why = False, 'no loop over the whole of varmap'
        for l in loops:
            it = full_container_loop(l, lambda o: is_this_member(o, 'varmap'))
            if it is None or assigned_in(l['body'], it):
                continue
            E = terms.Evaluator(prog, scalar=scalar)
            outs = E.run(f)
            lev = [e for e in outs[0].events if e[0] == 'loop']
            good = False
            for e in lev:
                for kind, conds, evs in e[1][1]:
                    st = [x for x in evs if x[0] in ('write', 'write-through')]
                    if not conds and len(st) == 1 and st[0][0] == 'write-through' and st[0][1][0] == 'elem' and st[0][1][1] == ('sym', 'vararr') and \
                            mapped_index(st[0][1][2], 'varmap', loopvar=True):
                        good = True
            stored = [n['b'] for n in walk(l['body']) if n.get('k') == 'bin' and n['op'] == '=']
            marker = len(stored) == 1 and strip(stored[0], casts=True).get('k') == 'global' and strip(stored[0], casts=True)['q'].endswith('::MASA_VAR_DEFAULT')
            ok = good and marker
            why = '' if ok else ('loop body does not store through vararr[it->second] unconditionally' if not good else 'stored value is `%s`, not MASA_VAR_DEFAULT' % show(stored[0]) if stored else 'no store')
        ctx.ob('C11.S4', 'purge_var|' + sc, ok, f.where, 'purge_var: ' + why, sample='for it in varmap: *vararr[it->second] = MASA_VAR_DEFAULT')
        f = prog.find_method(B, 'sanity_check')[0]
        full = {}
        for l in nodes(f.body, 'for'):
            for mp in ('varmap', 'vecmap'):
                it = full_container_loop(l, lambda o, mp=mp: is_this_member(o, mp))
                if it is not None and not assigned_in(l['body'], it):
                    full[mp] = l
        ok = set(full) == {'varmap', 'vecmap'}
        why = 'does not loop over the whole of varmap and vecmap (found %s)' % sorted(full)
        if ok:
            # flag: one local incremented exactly under the two tests; return depends on flag != 0
            incs = []
            for mp, l in full.items():
                ifs = [n for n in nodes(l['body'], 'if')]
                inc_here = [n for n in walk(l['body']) if (n.get('k') == 'bin' and n['op'] == '+=') or (n.get('k') == 'un' and n['op'] == '++')]
                if len(ifs) != 1 or len(inc_here) != 1 or not any(n is inc_here[0] for n in walk(ifs[0]['then'])):
                    ok, why = False, 'loop over %s does not increment the flag under exactly one test' % mp
                    break
                cond = ifs[0]['c']
                if mp == 'varmap':
                    good = any(n.get('k') == 'global' and n['q'].endswith('::MASA_VAR_DEFAULT') for n in walk(cond)) and \
                        any(n.get('k') == 'member' and n['n'] == 'vararr' for n in walk(cond))
                    if not good:
                        ok, why = False, 'scalar test `%s` does not compare *vararr[it->second] with the marker' % show(cond)[:80]
                else:
                    c = strip(cond, casts=True)
                    good = c.get('k') == 'bin' and c['op'] == '==' and int_value(c['b']) == 0 and \
                        strip(c['a'], casts=True).get('n') in ('size',)
                    empty = c.get('k') == 'call' and c.get('n') == 'empty'
                    if not (good or empty):
                        ok, why = False, 'vector test `%s` is not size()==0' % show(cond)[:80]
                t = strip(inc_here[0]['a'] if inc_here[0]['k'] == 'bin' else inc_here[0]['e'], casts=True)
                incs.append(t.get('id'))
            if ok and len(set(incs)) != 1:
                ok, why = False, 'the two loops count into different variables'
            if ok:
                E = terms.Evaluator(prog, scalar=scalar, noreturn=('masa_exit',))
                outs = [o for o in E.run(f) if o.kind == 'ret']
                vals = {}
                for o in outs:
                    c = o.conds[-1] if o.conds else None
                    vals[repr(o.ret)] = c
                nz = [o for o in outs if o.ret and o.ret[0] == 'num' and o.ret[1] != 0]
                z = [o for o in outs if o.ret == terms.num(0)]
                if not (len(nz) == 1 and len(z) == 1 and nz[0].conds[-1][0] == 'cmp' and nz[0].conds[-1][1] == '!=' and z[0].conds[-1][0] == 'not'):
                    ok, why = False, 'return value is not (flag != 0 ? non-zero : 0)'
        ctx.ob('C11.S4', 'sanity_check|' + sc, ok, f.where, 'sanity_check: ' + why, sample='flag counts marker scalars and empty vectors over both maps; return flag != 0')

        # ---- S5
        ctor = [f for f in prog.methods_of(B) if f.get('ctor')]
        ctx.require(len(ctor) >= 1, 'base constructor not found')
        for cnt in ('num_vars', 'num_vec'):
            assigned = False
            for c in ctor:
                if any(i.get('member') == cnt for i in c.inits if i.get('written')):
                    assigned = True
                for n in walk(c.body):
                    if n.get('k') == 'bin' and n['op'] == '=' and is_this_member(n['a'], cnt):
                        assigned = True
            fld = [x for x in prog.records[B]['fields'] if x['n'] == cnt]
            ctx.ob('C11.S5', '%s|%s' % (cnt, sc), assigned, (fld[0]['l'] if fld else ctor[0].where),
                   '%s is incremented and used as a slot index by register_%s but never initialised by the constructor' % (cnt, 'var' if cnt == 'num_vars' else 'vec'),
                   sample='%s = 0 in the constructor' % cnt)

        # ---- S2 per class
        fn, ents, other = cat.entries(prog, scalar)
        n_regs = 0
        for cls, _, _ in ents:
            short = cat.short(cls)
            regs = cat.registrations(prog, cls)
            if not regs:
                continue
            names = [r['name'] for r in regs]
            paths_ = ['.'.join(r['path']) if r['path'] else None for r in regs]
            n_regs += len(regs)
            if short in cat.FIXTURES:
                continue
            dupn = sorted(set(n for n in names if names.count(n) > 1))
            dupp = sorted(set(p for p in paths_ if paths_.count(p) > 1))
            named = [n for n in names if n is not None]
            dupn = sorted(set(n for n in named if named.count(n) > 1))
            ctx.ob('C11.S2', '%s|injective|%s' % (short, sc), not dupn and not dupp and None not in paths_, regs[0]['where'] if regs and 'where' in regs[0] else '',
                   '%s registers names %s / members %s more than once (or a non-literal name / non-member address)' % (short, dupn, dupp), sample='%s: %d names, %d members' % (short, len(set(names)), len(set(paths_))))
            for r in regs:
                if r['name'] is None:
                    # name assembled at run time (power-law foreach_parameter): injectivity of the addresses is checked above
                    ctx.ob('C11.S2', '%s|member-address|%s|%s' % (short, '.'.join(r['path'][1:]) if r['path'] else '?', sc), r['path'] is not None, r.get('where') or '',
                           '%s registers storage that is not a member of the instance' % short, nontrivial=False)
                    continue
                want = r['name']
                got = r['path'][-1] if r['path'] else None
                ok = r['path'] is not None and (r['path'][0] == 'this') and got == want
                ctx.ob('C11.S2', '%s|name-true|%s|%s' % (short, r['name'], sc), ok, r.get('where') or (r['node'].get('l') if r.get('node') else ''),
                       '%s registers member `%s` under the name "%s": masa_set_param("%s") would change a member the evaluators do not read as %s' % (
                           short, '.'.join(r['path'][1:]) if r['path'] else '?', r['name'], r['name'], r['name']),
                       sample='%s."%s" -> &%s' % (short, r['name'], '.'.join(r['path'][1:]) if r['path'] else '?'))
        ctx.floor('registered_parameters<%s>' % scalar, n_regs, 700)
    # ---- S3: defaults complete, constant, valid and fully redefined by init_var (C14.K4 evaluated on the same tree)
    from ..report import Ctx
    from . import c14
    sub = Ctx('C14', ctx.tier)
    c14.run(sub, prog)
    k4 = sub.rule_counts.get('C14.K4', [0, 0])
    bad = [v for v in sub.violations if v['rule'] == 'C14.K4']
    for v in bad:
        ctx.ob('C11.S3', v['key'], False, v['where'], v['msg'])
    ctx.ob('C11.S3', 'all-defaults', not bad, '', '%d default obligations fail' % len(bad), sample='%d default obligations of C14.K4 discharged (masa_init_param restores every scalar and vector parameter)' % k4[1])
    ctx.floor('default_obligations', k4[0], 1500)


