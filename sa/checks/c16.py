"""C16 - fatal-error discipline (DESIGN 2, C16).  Analysed in both preprocessor
configurations: the configured one and -DMASA_EXCEPTIONS."""
import json
import os
from .. import ir, terms, api
from .. import catalogue as cat
from ..ast import strip, flat_stmts, calls, nodes, is_param, show
from ..ir import walk
from ..report import AnalysisBroken

LEVEL = 'other'

# API functions that do not depend on the selected solution (frozen; one reason each)
SOLUTION_INDEPENDENT = {
    'masa_init': 'creates the solution (init_mms)',
    'masa_select_mms': 'changes the selection (select_mms), fatal on unknown handle',
    'masa_list_mms': 'prints the registry',
    'masa_printid': 'prints the catalogue',
    'masa_exit': 'the terminator itself',
    'masa_test_default': 'documented purpose is to exit',
    'masa_test_poly': 'self test of the Polynomial helper; constructs its own object',
    'masa_get_numeric_version': 'version', 'masa_version_stdout': 'version',
    'masa_map': 'string normalisation', 'uptolow': 'string normalisation', 'remove_line': 'string normalisation',
    'remove_whitespace': 'string normalisation',
}
TERMINATORS = ('exit', '_exit', '_Exit', 'abort', 'quick_exit', 'terminate')
MAY_TERMINATE = {'MASA::masa_exit': 'the single terminator', 'masa_test_default': 'documented purpose is to exit (C)',
                 'MASA::masa_test_default': 'documented purpose is to exit (C++)'}


def api_functions(prog):
    return [f for f in prog.functions if f.q.startswith('MASA::') and not f.get('rec') and f.where.startswith('src/masa_core.cpp')]


def check_config(ctx, prog, cfg):
    exc = cfg == 'exceptions'
    K = lambda k: '%s|%s' % (k, cfg)
    # ---------------- R4 masa_exit
    me = prog.fn('MASA::masa_exit')
    ctx.require(len(me) == 1, 'MASA::masa_exit not found')
    me = me[0]
    E = terms.Evaluator(prog)
    outs = E.run(me, arg_names=['ex'])
    ok, why = True, ''
    for o in outs:
        term = [e for e in o.events if e[0] in ('terminate', 'throw')]
        if o.kind != 'exit' or not term:
            ok, why = False, 'masa_exit has a path that returns to its caller'
            break
        kind, det, loc = term[0]
        if exc:
            if kind != 'throw' or det[0] != ('sym', 'ex') or det[1] != 'int':
                ok, why = False, 'exception build: masa_exit does not `throw ex` of type int (throws %s of type %s)' % (det[0], det[1])
        else:
            if kind != 'terminate' or det[0] != 'exit' or det[1] != (('sym', 'ex'),):
                ok, why = False, 'masa_exit ends in %s(%s), expected exit(ex)' % (det[0], ', '.join(terms.fmt(a) for a in det[1]))
    ctx.ob('C16.R4', K('masa_exit-terminates'), ok, me.where, why, sample='every path of masa_exit ends in %s' % ('throw ex (int)' if exc else 'exit(ex)'))
    # every call site passes literal 1
    n_sites = 0
    for f in prog.functions:
        for c in calls(f.body, q='MASA::masa_exit'):
            n_sites += 1
            a = strip(c['args'][0], casts=True)
            ok = a.get('k') == 'int' and a['v'] == '1'
            ctx.ob('C16.R4', K('status-1|%s' % c['l']), ok, c['l'], 'masa_exit called with `%s`, the documented status is 1' % show(c['args'][0]),
                   sample='%s: masa_exit(1)' % f.n)
    ctx.floor(K('masa_exit_call_sites'), n_sites, 6)

    # ---------------- R6 who may terminate
    n_term = 0
    # a helper that only the terminators call (directly or through other such helpers) is part of them
    callers = {}
    for g in prog.functions:
        for n in walk(g.body):
            if n.get('k') == 'call' and n.get('inrepo') and n.get('q'):
                callers.setdefault(n['q'], set()).add(g.q)
            if n.get('k') == 'fnref' and n.get('q'):
                callers.setdefault(n['q'], set()).add('<address taken in %s>' % g.q)

    def only_from_terminators(q, seen=()):
        if q.split('<')[0] in MAY_TERMINATE:
            return True
        cs = callers.get(q, set())
        if not cs or q in seen:
            return False
        return all(only_from_terminators(c, seen + (q,)) for c in cs)
    for f in prog.functions:
        for n in walk(f.body):
            bad = None
            if n.get('k') == 'call' and n.get('n') in TERMINATORS and not n.get('inrepo'):
                bad = n['n'] + '()'
            elif n.get('k') == 'throw':
                bad = 'throw'
            if bad:
                n_term += 1
                ok = only_from_terminators(f.q)
                ctx.ob('C16.R6', K('%s|%s' % (f.q, n.get('l'))), ok, n.get('l'),
                       '%s terminates the process directly (%s); only masa_exit may' % (f.q, bad), sample='%s in %s' % (bad, f.q), nontrivial=False)
    ctx.floor(K('termination_sites'), n_term, 1)

    for scalar in cat.SCALARS:
        sc = 'ld' if scalar == 'long double' else 'd'
        mm = 'MasterMS<%s>' % scalar
        rec = [r for r in prog.records if r.endswith(mm)]
        ctx.require(len(rec) == 1, 'record %s not found' % mm)
        rq = rec[0]
        # ---------------- R1 the selection pointer is private to the registry class
        fld = [x for x in prog.records[rq]['fields'] if x['n'] == '_master_pointer']
        ctx.ob('C16.R1', K('private|' + sc), bool(fld) and fld[0]['access'] == 'private', prog.records[rq]['l'], '_master_pointer is not private', sample='private member')
        # ---------------- R2 / R3: every entry point evaluated with its callees inlined (sa/api.py)
        ptr = api.pointer_path(prog, scalar)
        n_dep = 0
        n_guard = 0
        for f in api.api_functions(prog, scalar):
            if not f.where.startswith('src/masa_core.cpp'):
                continue
            E, paths = api.evaluate(prog, f, scalar)
            reads_obj = any(k_.startswith(ptr + '*') for k_ in E.trace.pre_reads) or any(k_.startswith(ptr + '*') for k_ in E.trace.writes)
            unguarded = []
            used = reads_obj
            for o in paths:
                evs = api.flat(o.events)
                uses = api.uses_of_solution(evs, ptr)
                used = used or bool(uses)
                if o.kind == 'exit' and not uses:
                    continue
                guard = [i for i, e in enumerate(evs) if e[0] == 'cond' and api.nonnull_fact(e[1], ptr)]
                if uses and (not guard or guard[0] > uses[0]):
                    unguarded.append(evs[uses[0]][2])
                elif reads_obj and o.kind != 'exit' and not guard:
                    unguarded.append(f.where)
            if used:
                n_guard += 1
                ctx.ob('C16.R2', K('guarded|%s|%s|%s' % (f.n, f.sig, sc)), not unguarded, f.where,
                       '%s uses the selected solution at %s on a path that has not established that a solution is selected (_master_pointer != 0): '
                       'with no masa_init the call dereferences a null pointer instead of ending in masa_exit' % (f.n, unguarded[:1]),
                       sample='%s: the null test dominates every use of the selected solution' % f.n, nontrivial=not f.n.startswith('masa_eval_'))
                fatal = [o for o in paths if o.kind == 'exit' and any(api.null_fact(c, ptr) for c in o.conds)]
                ctx.ob('C16.R2', K('null-is-fatal|%s|%s|%s' % (f.n, f.sig, sc)), bool(fatal), f.where,
                       '%s has no path on which a null selection pointer leads to masa_exit' % f.n, sample='%s: _master_pointer == 0 -> masa_exit' % f.n,
                       nontrivial=False)
            # solution objects other than the selected one
            foreign = []
            own_map = ptr[:-len('_master_pointer')] + '_master_map'
            for o in paths:
                facts = list(o.conds)
                for e in api.flat(o.events):
                    if e[0] == 'cond':
                        facts.append(e[1])
                    if e[0] == 'call' and len(e[1]) > 2 and e[1][0].startswith(cat.BASE % scalar + '::') and e[1][2] is not None and e[1][2] != ('sym', ptr + '*'):
                        if not (e[1][2][0] == 'sym' and e[1][2][1].startswith('this:')) and not registered_or_local(e[1][2], facts, own_map):
                            foreign.append((e[1][0].split('::')[-1], terms.fmt(e[1][2])[:50], e[2]))
            if f.n in SOLUTION_INDEPENDENT or not (used or foreign or f.n in DEPENDENT_TODAY):
                continue
            n_dep += 1
            ok = not foreign and (used or f.n not in DEPENDENT_TODAY)
            ctx.ob('C16.R3', K('%s|%s' % (f.n, f.sig)), ok, f.where,
                   ('%s calls %s on `%s` at %s: neither the selected solution, nor one found in its own registry, nor one it has just allocated' % ((f.n,) + foreign[0])) if foreign else
                   '%s no longer reaches the selected solution of the %s registry: before masa_init it used to end in masa_exit (tables/c16_solution_dependent.json), now it returns' % (f.n, scalar),
                   sample='%s -> selected solution' % f.n)
        ctx.floor(K('solution_dependent_api|' + sc), n_dep, 100)
        ctx.floor(K('guarded_entry_points|' + sc), n_guard, 100)
        # ---------------- R5 failing branches store nothing; fatal message printed
        for nm, what in (('verify_pointer_sanity', 'no solution initialised'), ('select_mms', 'unknown handle'), ('init_mms', 'unknown solution name')):
            fs = [f for f in prog.methods_of(rq) if f.n == nm]
            ctx.require(len(fs) == 1, '%s::%s not found' % (rq, nm))
            E = terms.Evaluator(prog, noreturn=('masa_exit',), opaque=('get_list_mms', 'list_mms', 'masa_map', 'return_name'))
            outs = E.run(fs[0])
            exits = [o for o in outs + E.trace.exit_paths if o.kind == 'exit']
            ctx.ob('C16.R5', K('%s|has-fatal-path|%s' % (nm, sc)), bool(exits), fs[0].where, '%s has no path that ends in masa_exit (misuse: %s)' % (nm, what),
                   sample='%s: %d fatal path(s)' % (nm, len(exits)))
            for i, o in enumerate(exits):
                stores = [e for e in o.events if e[0] == 'write' and e[1] in ('_master_pointer', '_master_map')]
                ctx.ob('C16.R5', K('%s|no-store-before-exit|%d|%s' % (nm, i, sc)), not stores, fs[0].where,
                       '%s stores to %s at %s on a path that then calls masa_exit (registry changed by a failed call)' % (nm, [e[1] for e in stores], [e[2] for e in stores]),
                       sample='%s fatal path %d: no registry store' % (nm, i))
                flat = []

                def fl(es):
                    for e_ in es:
                        if e_[0] in ('loop', 'branch'):
                            for k_, c_, sub in e_[1][1]:
                                if k_ in ('fall', 'cont'):      # returning iterations do not reach what follows the loop
                                    fl(sub)
                        else:
                            flat.append(e_)
                fl(o.events)
                dels = [e_ for e_ in flat if e_[0] == 'delete' and '_master_map' in terms.fmt(e_[1])]
                ctx.ob('C16.R5', K('%s|no-registered-object-deleted|%d|%s' % (nm, i, sc)), not dels, fs[0].where,
                       '%s deletes a registered solution (%s at %s) on a path that then calls masa_exit: after the failed call the registry holds a dangling pointer' % (
                           nm, terms.fmt(dels[0][1])[:60] if dels else '', dels[0][2] if dels else ''),
                       sample='%s fatal path %d: no registered object deleted' % (nm, i))
                msg = any(e[0] == 'print' and 'MASA FATAL ERROR' in e[1] for e in o.events)
                ctx.ob('C16.R4', K('%s|fatal-message|%d|%s' % (nm, i, sc)), msg, fs[0].where,
                       "%s calls masa_exit without printing a literal containing 'MASA FATAL ERROR' first" % nm, sample='%s prints MASA FATAL ERROR' % nm)
            # the successful paths must not reach masa_exit afterwards, trivially true by path split


DEPENDENT_TODAY = set(json.load(open(os.path.join(os.path.dirname(os.path.dirname(os.path.dirname(os.path.abspath(__file__)))), 'tables', 'c16_solution_dependent.json')))['names'])


def registered_or_local(obj, facts, own_map):
    """obj designates a solution object that is known to exist: the mapped value of an iterator of the entry point's own
    registry map (find(k) on a path that has established that k is registered, or the iterator of a begin()..end() traversal),
    or an object the entry point has allocated itself (no global or static storage in the term)"""
    from ..ownership import lookup_fact
    t = obj
    if t[0] == 'field' and t[2] == 'second' and t[1][0] == 'call' and t[1][1] in ('op:operator*', 'op:operator->') and len(t[1][2]) == 1:
        it = t[1][2][0]
        if it[0] == 'call' and it[1] == 'loopvar':
            it0 = it[2][0]
            return it0[0] == 'mcall' and it0[1] == ('sym', own_map) and it0[2] in ('begin', 'cbegin')
        if it[0] == 'mcall' and it[1] == ('sym', own_map) and it[2] == 'find' and len(it[3]) == 1:
            return any(lf is not None and lf[0] == it[3][0] and lf[1] is True for lf in (lookup_fact(c, own_map) for c in facts))
        return False
    syms_ = [x[1] for x in terms.subterms(t) if x[0] == 'sym']
    return not any(x.startswith(('global:', 'static:')) for x in syms_) and any(x[0] == 'new' for x in terms.subterms(t))


def run(ctx, prog):
    ctx.rule('C16.R1', '_master_pointer is a private member of the registry class (who may write it is C12.H1)')
    ctx.rule('C16.R2', 'with callees inlined, on every path of every entry point the test _master_pointer != 0 precedes the first use of the selected solution, and the null branch ends in masa_exit')
    ctx.rule('C16.R3', 'the only solution objects an entry point calls into are the selected solution of its own registry, objects found in that registry (iterator checked against end(), or a whole-map traversal) and objects it has just allocated; every entry point that reaches the selected solution on the pinned tree (tables/c16_solution_dependent.json) still does')
    ctx.rule('C16.R4', "masa_exit never returns: every path ends in exit(ex) (throw ex of type int in the exception build) with ex the unmodified parameter; every call site passes the literal 1; "
             "on each misuse path a literal containing 'MASA FATAL ERROR' is printed before the call")
    ctx.rule('C16.R5', 'on every path of verify_pointer_sanity / select_mms / init_mms that ends in masa_exit, no store to _master_pointer or _master_map precedes the call')
    ctx.rule('C16.R6', 'exit/abort/throw occur only in masa_exit and the two masa_test_default functions')
    ctx.explanation = ('All solution-dependent API functions funnel through one gate (get_ms) whose sanity call dominates the dereference; the three misuse paths are '
                       'enumerated path by path with their ordered side effects, so "state intact after the throw" holds for every history, in both preprocessor configurations.')
    check_config(ctx, prog, 'exit')
    prog2 = ir.load(prog.repo, extra_defs=('-DMASA_EXCEPTIONS',))
    check_config(ctx, prog2, 'exceptions')
    ctx.analysed['configurations'] = ['configured (exit)', '-DMASA_EXCEPTIONS']
