"""C10 - evaluation is a pure function of (solution, parameters, point) (DESIGN 2, C10).

Effect analysis per catalogue class and evaluator override, flow sensitive,
through every repository callee (inlined by forward substitution; virtual calls
on this resolved for the dynamic class; set_var("lit") resolved through the
class's registration table to the member it aliases).
"""
import os
from .. import terms, nf
from .. import catalogue as cat
from ..ast import strip, flat_stmts, calls, is_param, member_path
from ..ir import walk
from ..report import AnalysisBroken

LEVEL = 'other'
BANNED = {'rand', 'srand', 'random', 'drand48', 'time', 'clock', 'getenv', 'scanf', 'fscanf', 'getchar', 'gets', 'fgets', 'fread',
          'operator>>', 'gettimeofday', 'clock_gettime', 'rand_r', 'lrand48'}
ALLOWED_GLOBALS = ('std::cout', 'std::cerr', 'std::endl')


def evaluator_overrides(prog, cls, scalar):
    """[(name, sig, Fn)] final overriders of base virtual eval_* slots that are not the base stubs"""
    out = []
    for (name, sig), m in cat.base_virtuals(prog, scalar).items():
        if not name.startswith('eval_'):
            continue
        owner, mm = cat.resolve_virtual(prog, cls, name, sig)
        if owner and owner != cat.BASE % scalar:
            f = prog.fn(owner + '::' + name, sig)
            if f:
                out.append((name, sig, f[0]))
    return out


def ctor_written_members(prog, cls, regmap, scalar):
    """member paths assigned during construction (ctor body + init list + init_var chain)"""
    from .c14 import ctor_of, init_var_of
    paths = set()
    pointee = {}
    derived = {}
    for r in prog.base_chain(cls):
        for f in prog.methods_of(r):
            if f.get('ctor'):
                for i in f.inits:
                    if i.get('member'):
                        paths.add(i['member'])
                        # member sub-object built by one of the repository's constructors: its own initialiser list assigns
                        # the sub-members; a pointer sub-member initialised with the address of a reference parameter points
                        # at whatever member of this object was passed for it
                        e = strip(i.get('e'))
                        if isinstance(e, dict) and e.get('k') == 'construct':
                            for f2 in prog.methods_of(e.get('t', '')):
                                if f2.get('ctor') and f2.sig == e.get('ctor'):
                                    for i2 in f2.inits:
                                        if not i2.get('member'):
                                            continue
                                        sub = '%s.%s' % (i['member'], i2['member'])
                                        paths.add(sub)
                                        e2 = strip(i2.get('e'), casts=True)
                                        if isinstance(e2, dict) and e2.get('k') == 'un' and e2.get('op') == '&' and is_param(e2.get('e')):
                                            k = strip(e2['e'])['i']
                                            if k < len(e['args']):
                                                mp = member_path(e['args'][k])
                                                if mp and mp[0] == 'this':
                                                    pointee[sub] = '.'.join(mp[1:])
                E = terms.Evaluator(prog, dyn_class=cls, scalar=scalar, regmap=regmap, opaque=('register_var', 'register_vec'))
                # reads of registered parameters yield a marker symbol, so that what construction derives from them is visible
                E.freeze = {p_: '@reg:' + p_ for p_ in set(regmap.values())}
                try:
                    outs = E.run(f, arg_names=['ctorarg%d' % i for i in range(len(f.params))])
                except RecursionError:
                    raise AnalysisBroken('constructor of %s too deep' % r)
                paths |= set(E.trace.writes)
                for o in outs:
                    for pth, v in o.mem.items():
                        if pth in regmap.values():
                            continue
                        ds = sorted(x[5:] for x in terms.syms(v) if x.startswith('@reg:'))
                        if ds:
                            derived.setdefault(pth, set()).update(ds)
    return paths, pointee, derived


_MEMO = {}


def memo_protocol(prog, cls, scalar, f, regmap, regpaths, cached):
    """A memo cache across calls.  `cached` are the non-registered members evaluator f reads before writing them.
    Decides whether they form a cache that cannot change the result:
      (1) every path of f is a *miss* (no entry value of a cached member reaches the result; the data members are refilled
          from parameters and arguments, the key members are set to the arguments, the flag to true) or a *hit* (its
          condition says the flag is set and every key member equals the corresponding argument);
      (2) the hit result, with each data member replaced by what a miss stores in it and each key member by its argument,
          is the miss result;
      (3) on an object of this class every store to a registered parameter through the slot arrays (set_var, purge_var,
          set_vec, ... - every base-class method that writes through vararr / vecarr) is followed by a reset of the flag,
          and construction leaves the flag reset.
    Returns (True, text) / (False, why: a recognised cache that is not coherent) / (None, why not recognised)."""
    key = (id(prog), cls, f.q, f.sig)
    if key in _MEMO:
        return _MEMO[key]
    res = _memo_protocol(prog, cls, scalar, f, regmap, regpaths, cached)
    _MEMO[key] = res
    return res


def _memo_protocol(prog, cls, scalar, f, regmap, regpaths, cached):
    from ..api import flat as flat_events
    E = terms.Evaluator(prog, dyn_class=cls, scalar=scalar, regmap=regmap)
    E.unroll_paths = True
    try:
        outs = E.run(f)
    except RecursionError:
        return None, 'too deep'
    paths = [o for o in outs if o.kind == 'ret' and o.ret is not None]
    if len(paths) < 2 or len(paths) != len(outs):
        return None, 'not a hit / miss pair of paths'
    cached = set(cached)

    def entry_syms(t):
        return set(x[1] for x in terms.subterms(t) if x[0] == 'sym' and x[1] in cached)
    args = [('sym', p_['n']) for p_ in f.params]
    miss = [o for o in paths if not entry_syms(o.ret)]
    hit = [o for o in paths if entry_syms(o.ret)]
    if not miss or not hit:
        return None, 'no path that refills the cache' if not miss else 'no path that reads it'
    # ---- the hit condition: flag set, keys equal to arguments
    flags, keys = set(), {}
    for o in hit:
        fl_o, k_o = set(), {}
        lits = []

        def expand(c, neg):
            while c[0] == 'not':
                neg = not neg
                c = c[1]
            if (c[0] == 'or' and neg) or (c[0] == 'and' and not neg):
                for x in (c[1] if len(c) == 2 and isinstance(c[1], (list, tuple)) and c[1] and isinstance(c[1][0], tuple) else c[1:]):
                    expand(x, neg)
            else:
                lits.append((c, neg))
        for c0 in o.conds:
            expand(c0, False)
        for c, neg in lits:
            if c[0] == 'sym' and c[1] in cached and not neg:
                fl_o.add(c[1])
            elif c[0] == 'cmp' and c[1] in ('==', '!=') and (c[1] == '==') != neg:
                for a_, b_ in ((c[2], c[3]), (c[3], c[2])):
                    if a_[0] == 'sym' and a_[1] in cached and b_ in args:
                        k_o[a_[1]] = b_
        if not fl_o:
            return None, 'a path reads the cache without testing a validity flag'
        flags |= fl_o
        for k_, v_ in k_o.items():
            if keys.get(k_, v_) != v_:
                return None, 'key compared with different arguments'
            keys[k_] = v_
    if len(flags) != 1:
        return None, 'more than one validity flag'
    flag = next(iter(flags))
    data = cached - flags - set(keys)
    # every argument the miss result depends on must be part of the key
    for o in miss:
        used_args = set(x for x in terms.subterms(o.ret) if x in args)
        for dm in data:
            v = o.mem.get(dm)
            if v is not None:
                used_args |= set(x for x in terms.subterms(v) if x in args)
        missing = [a_[1] for a_ in used_args if a_ not in keys.values()]
        if missing:
            return False, 'the cache `%s` is not keyed on the argument(s) %s the cached values depend on' % (flag.rsplit('.', 1)[0], missing)
    # ---- a miss refills everything
    fills = {}
    for o in miss:
        if o.mem.get(flag) != terms.num(1):
            return None, 'a refilling path does not set the flag'
        for k_, a_ in keys.items():
            if o.mem.get(k_) != a_:
                return False, 'a refilling path does not store the argument %s in the key `%s`' % (a_[1], k_)
        for dm in data:
            v = o.mem.get(dm)
            if v is None or entry_syms(v) or terms.has_unk(v):
                return None, 'data member `%s` is not refilled from parameters and arguments' % dm
            if fills.setdefault(dm, v) != v:
                return None, 'refilling paths disagree'
    # ---- (2) hit result == miss result under the substitution
    sub = {('sym', dm): v for dm, v in fills.items()}
    sub.update({('sym', k_): a_ for k_, a_ in keys.items()})

    def subst(t):
        if isinstance(t, tuple):
            if t in sub:
                return sub[t]
            return tuple(subst(x) if isinstance(x, tuple) else x for x in t)
        return t
    m0 = miss[0].ret
    for o in hit:
        hs = subst(o.ret)
        if hs != m0:
            try:
                same = nf.nf(hs) == nf.nf(m0)
            except Exception:
                same = False
            if not same:
                return False, 'a hit returns `%s`, which is not what a miss returns for the same point' % terms.fmt(o.ret)[:60]
    # ---- (3) invalidation on every parameter write, on an object of this class
    B = cat.BASE % scalar
    # which kind of registered parameter the cached values are computed from: scalars live behind vararr, vectors behind vecarr
    kind_of = {'.'.join(r_['path'][1:]): r_['kind'] for r_ in cat.registrations(prog, cls) if r_['path'] and r_['path'][0] == 'this'}
    dep_kinds = set()
    for v_ in list(fills.values()) + [m0]:
        for x_ in terms.syms(v_):
            k_ = kind_of.get(x_.split('[')[0])
            if k_:
                dep_kinds.add(k_)
    slot_arrays = tuple(a_ for a_, k_ in (('vararr', 'var'), ('vecarr', 'vec')) if k_ in dep_kinds) or ('vararr',)
    writers = []
    for g in prog.methods_of(B):
        if g.get('ctor') or g.get('dtor') or g.body is None:
            continue
        if any(n.get('k') == 'member' and n.get('n') in slot_arrays for n in walk(g.body)):
            writers.append(g)
    checked = []
    for g in writers:
        Eg = terms.Evaluator(prog, dyn_class=cls, scalar=scalar, noreturn=('masa_exit',), opaque=('return_name',))
        Eg.unroll_paths = True
        try:
            og = Eg.run(g)
        except RecursionError:
            return None, '%s too deep' % g.n
        for o in og:
            evs = flat_events(o.events)
            w = [i for i, e_ in enumerate(evs) if e_[0] in ('write-through', 'store') and any(
                x[0] == 'sym' and x[1] in slot_arrays for x in terms.subterms(e_[1] if isinstance(e_[1], tuple) else ()))]
            if not w:
                continue
            r = [i for i, e_ in enumerate(evs) if e_[0] == 'write' and e_[1] == flag]
            if not r or r[-1] < w[-1] or o.mem.get(flag) != terms.num(0):
                return False, ('the cache `%s` is filled from the parameters but %s stores to a registered parameter without resetting `%s` afterwards '
                               '(on an object of %s): the next evaluation at the same point returns values of the old parameters') % (
                                   flag.rsplit('.', 1)[0], g.n, flag, cat.short(cls))
        checked.append(g.n)
    if 'set_var' not in checked:
        return None, 'set_var not analysed'
    from .c14 import ctor_of
    ct = ctor_of(prog, cls)
    Ec = terms.Evaluator(prog, dyn_class=cls, scalar=scalar, opaque=('register_var', 'register_vec'))
    try:
        oc = Ec.run(ct) if ct is not None else []
    except RecursionError:
        oc = []
    if not oc or any(o.mem.get(flag) != terms.num(0) for o in oc):
        return False, 'construction does not leave the validity flag `%s` reset: the first evaluation may read an uninitialised cache' % flag
    return True, 'memo cache `%s` keyed on %s, refilled on a miss, invalidated by %s' % (flag.rsplit('.', 1)[0], sorted(a_[1] for a_ in keys.values()), sorted(checked))


def run(ctx, prog):
    ctx.rule('C10.P1', 'no evaluator (nor anything it calls) stores to a registered parameter, directly, through set_var/set_vec, or through a helper')
    ctx.rule('C10.P2', 'every non-registered member an evaluator reads is either written earlier in the same invocation on every path, or written by no evaluator at all and assigned during construction, or part of a memo cache proved coherent (a hit returns what a miss returns for the same point, the key covers every argument used, every store to a registered parameter is followed by a reset of the validity flag on an object of this class, construction resets it)')
    ctx.rule('C10.P3', 'nothing a static local kept from an earlier call reaches a result, branch or store of an evaluator (a static overwritten before it is read is scratch space, not state); no mutable global or static data member is read, no rand/time/input call is reachable')
    ctx.rule('C10.P5', 'masa_master<double>() and masa_master<long double>() return two distinct global registries')
    ctx.explanation = ('P1-P3 imply that an evaluator\'s result is a function of the registered parameters\' current values and its arguments, and that it changes no '
                       'parameter; this holds for every call history because it is a property of the code on every path, not of a sampled sequence. '
                       'The API layer stores nothing (C15.R2 shape). Sound modulo aliasing: members are reached only through this and vararr/vecarr, and the latter '
                       'are indexed only by set/get/purge (C11), which evaluators may not call (P1 flags set_var).')
    n_eval = 0
    for scalar in cat.SCALARS:
        sc = 'ld' if scalar == 'long double' else 'd'
        fn, ents, other = cat.entries(prog, scalar)
        for cls, _, _ in ents:
            short = cat.short(cls)
            regs = cat.registrations(prog, cls)
            regmap = {r['name']: '.'.join(r['path'][1:]) for r in regs if r['name'] is not None and r['path'] and r['path'][0] == 'this'}
            regpaths = set('.'.join(r['path'][1:]) for r in regs if r['path'] and r['path'][0] == 'this')
            evs = evaluator_overrides(prog, cls, scalar)
            results = {}
            W_all = {}
            for name, sig, f in evs:
                E = terms.Evaluator(prog, dyn_class=cls, scalar=scalar, regmap=regmap)
                outs_ = E.run(f)
                E.trace.paths = list(outs_) + [p_ for p_ in E.trace.exit_paths if p_ not in outs_]
                results[(name, sig)] = (f, E.trace)
                for pth, locs in E.trace.writes.items():
                    W_all.setdefault(pth, []).append((name, locs[0]))
            ctor_w, pointee, derived = ctor_written_members(prog, cls, regmap, scalar) if evs else (set(), {}, {})
            for (name, sig), (f, tr) in results.items():
                n_eval += 1
                key = '%s::%s|%s|%s' % (short, name, sig.replace(scalar, 'S'), sc)
                # ---- P1
                bad = sorted(p for p in tr.writes if p in regpaths or p == '*unknown')
                sv = [c for c in tr.setvar_calls]
                if sv and not bad:
                    bad = ['set_var("%s")' % c[0] for c in sv]
                ctx.ob('C10.P1', key, not bad, f.where,
                       '%s::%s writes registered parameter(s) %s at %s' % (short, name, bad, [tr.writes.get(b, ['?'])[0] for b in bad][:3]),
                       sample='%s writes only %s' % (key, sorted(tr.writes)[:4]))
                # ---- P2
                probs = []
                for pth, loc in tr.pre_reads.items():
                    base = pth.rstrip('*')
                    if pth.endswith('*') and base in pointee and base not in W_all:
                        pth = base = pointee[base]      # pointer member fixed at construction: the read is a read of its target
                    if base in regpaths:
                        continue
                    if pth.startswith(('global:', 'const:')):
                        continue
                    if any(w_.startswith(pth + '.') for w_ in W_all):
                        continue        # the aggregate itself (a reference to it is handed out): its fields are judged one by one
                    if pth in W_all:
                        w = W_all[pth][0]
                        probs.append('reads cached member `%s` at %s before writing it in this call; it is written by %s (%s): value depends on earlier calls' % (pth, loc, w[0], w[1]))
                    elif pth not in ctor_w:
                        probs.append('reads member `%s` at %s which neither this call nor construction assigns' % (pth, loc))
                    elif pth in derived:
                        probs.append('reads member `%s` at %s, which only construction / masa_init_param computes, from the parameters %s: after masa_set_param it is stale' % (
                            pth, loc, sorted(derived[pth])[:4]))
                cached_only = [pth_ for pth_ in tr.pre_reads if pth_ in W_all and pth_ not in regpaths]
                if os.environ.get('C10_DEBUG') and probs:
                    print('DEBUG', key, len(probs), [p_[:60] for p_ in probs if not p_.startswith('reads cached member')], cached_only)
                if probs and cached_only and all(p_.startswith('reads cached member') for p_ in probs):
                    ok_m, why_m = memo_protocol(prog, cls, scalar, f, regmap, regpaths, sorted(w_ for w_ in W_all if w_ not in regpaths and not w_.startswith('*')))
                    if ok_m is True:
                        probs = []
                    elif ok_m is False:
                        probs = [why_m]
                ctx.ob('C10.P2', key, not probs, f.where, '; '.join(probs[:3]),
                       sample='%s: %d members read on entry, all registered or construction-time constants; %d cached members rewritten before use' % (
                           key, len(tr.pre_reads), len([w for w in tr.writes if w not in regpaths])),
                       nontrivial=bool(tr.pre_reads))
                # ---- P3
                probs = []
                undecided = []
                if tr.mutable_statics:
                    # a static local is state only if what it kept from an earlier call can reach a result, a branch or a store of this one
                    used = set()
                    unk = False
                    for o_ in tr.paths:
                        ts_ = ([o_.ret] if o_.ret is not None else []) + list(o_.conds) + [v_ for v_ in o_.mem.values() if isinstance(v_, tuple)]
                        from ..api import flat as flat_events
                        for e_ in flat_events(o_.events):
                            if e_[0] != 'delta':        # deltas describe how a loop updates its own local variables
                                ts_ += [x_ for x_ in e_[1:] if isinstance(x_, tuple)]
                        for e_ in o_.events:
                            if e_[0] == 'loop' and e_[1][0] is not None:
                                ts_.append(e_[1][0])
                        for t_ in ts_:
                            for x_ in terms.subterms(t_):
                                if x_[0] == 'sym' and isinstance(x_[1], str) and x_[1].startswith('static:'):
                                    used.add(x_[1].split(':')[-1])
                        unk = unk or (o_.ret is not None and terms.has_unk(o_.ret))
                    for nm, loc in tr.mutable_statics:
                        if nm in used:
                            probs.append('static local `%s` at %s: the value it kept from an earlier call reaches the result of this one' % (nm, loc))
                        elif unk:
                            undecided.append('static local `%s` at %s and a result the analysis does not resolve: not decided' % (nm, loc))
                for q, (const, loc) in tr.globals_read.items():
                    if not const and not q.startswith(ALLOWED_GLOBALS):
                        probs.append('reads mutable global `%s` at %s' % (q, loc))
                for q, locs in tr.globals_written.items():
                    probs.append('writes global `%s` at %s' % (q, locs[0]))
                for q, loc in tr.lib_calls + tr.unknown_calls:
                    if q.split('::')[-1].split('<')[0] in BANNED:
                        probs.append('calls %s at %s' % (q, loc))
                ctx.ob('C10.P3', key, (not probs) if (probs or not undecided) else None, f.where, '; '.join((probs or undecided)[:3]),
                       sample='%s: no static/global state reaches the result, %d callees inlined' % (key, len(tr.inlined)), nontrivial=False)
                if tr.too_many_paths:
                    raise AnalysisBroken('%s: path limit reached' % key)
    ctx.floor('evaluator_overrides_analysed', n_eval, 2 * 225)
    # ---- P5: the accessors evaluated (helpers / tag dispatch inlined) return two different global objects of the right types
    from .. import api
    regs = api.registry_globals(prog)
    gq = {sc_: r[len('global:'):] for sc_, r in regs.items()}
    tys = {sc_: str(prog.vars.get(gq[sc_], {}).get('t', '')) for sc_ in gq}
    ok = gq['double'] != gq['long double'] and 'MasterMS<double>' in tys['double'] and 'MasterMS<long double>' in tys['long double']
    fs = [f for f in prog.functions if f.n == 'masa_master']
    ctx.ob('C10.P5', 'distinct-registries', ok, fs[0].where if fs else '', 'masa_master<double>/<long double> return %s (%s) / %s (%s)' % (
        gq['double'], tys['double'], gq['long double'], tys['long double']), sample='%s vs %s' % (gq['double'], gq['long double']))
