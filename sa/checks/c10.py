"""C10 - evaluation is a pure function of (solution, parameters, point) (DESIGN 2, C10).

Effect analysis per catalogue class and evaluator override, flow sensitive,
through every repository callee (inlined by forward substitution; virtual calls
on this resolved for the dynamic class; set_var("lit") resolved through the
class's registration table to the member it aliases).
"""
from .. import terms
from .. import catalogue as cat
from ..ast import strip, flat_stmts, calls, is_param, member_path
from ..ir import walk
from ..report import AnalysisBroken

LEVEL = 'other'
BANNED = {'rand', 'srand', 'random', 'drand48', 'time', 'clock', 'getenv', 'scanf', 'fscanf', 'getchar', 'gets', 'fgets', 'fread',
          'operator>>', 'gettimeofday', 'clock_gettime', 'rand_r', 'lrand48'}
ALLOWED_GLOBALS = ('std::cout', 'std::cerr', 'std::endl')


def evaluator_overrides(prog, cls, scalar):
    """[(name, sig, Fn)] final overriders of base virtual eval_* slots that are not the base stubs"""
    out = []
    for (name, sig), m in cat.base_virtuals(prog, scalar).items():
        if not name.startswith('eval_'):
            continue
        owner, mm = cat.resolve_virtual(prog, cls, name, sig)
        if owner and owner != cat.BASE % scalar:
            f = prog.fn(owner + '::' + name, sig)
            if f:
                out.append((name, sig, f[0]))
    return out


def ctor_written_members(prog, cls, regmap, scalar):
    """member paths assigned during construction (ctor body + init list + init_var chain)"""
    from .c14 import ctor_of, init_var_of
    paths = set()
    pointee = {}
    derived = {}
    for r in prog.base_chain(cls):
        for f in prog.methods_of(r):
            if f.get('ctor'):
                for i in f.inits:
                    if i.get('member'):
                        paths.add(i['member'])
                        # member sub-object built by one of the repository's constructors: its own initialiser list assigns
                        # the sub-members; a pointer sub-member initialised with the address of a reference parameter points
                        # at whatever member of this object was passed for it
                        e = strip(i.get('e'))
                        if isinstance(e, dict) and e.get('k') == 'construct':
                            for f2 in prog.methods_of(e.get('t', '')):
                                if f2.get('ctor') and f2.sig == e.get('ctor'):
                                    for i2 in f2.inits:
                                        if not i2.get('member'):
                                            continue
                                        sub = '%s.%s' % (i['member'], i2['member'])
                                        paths.add(sub)
                                        e2 = strip(i2.get('e'), casts=True)
                                        if isinstance(e2, dict) and e2.get('k') == 'un' and e2.get('op') == '&' and is_param(e2.get('e')):
                                            k = strip(e2['e'])['i']
                                            if k < len(e['args']):
                                                mp = member_path(e['args'][k])
                                                if mp and mp[0] == 'this':
                                                    pointee[sub] = '.'.join(mp[1:])
                E = terms.Evaluator(prog, dyn_class=cls, scalar=scalar, regmap=regmap, opaque=('register_var', 'register_vec'))
                # reads of registered parameters yield a marker symbol, so that what construction derives from them is visible
                E.freeze = {p_: '@reg:' + p_ for p_ in set(regmap.values())}
                try:
                    outs = E.run(f, arg_names=['ctorarg%d' % i for i in range(len(f.params))])
                except RecursionError:
                    raise AnalysisBroken('constructor of %s too deep' % r)
                paths |= set(E.trace.writes)
                for o in outs:
                    for pth, v in o.mem.items():
                        if pth in regmap.values():
                            continue
                        ds = sorted(x[5:] for x in terms.syms(v) if x.startswith('@reg:'))
                        if ds:
                            derived.setdefault(pth, set()).update(ds)
    return paths, pointee, derived


def run(ctx, prog):
    ctx.rule('C10.P1', 'no evaluator (nor anything it calls) stores to a registered parameter, directly, through set_var/set_vec, or through a helper')
    ctx.rule('C10.P2', 'every non-registered member an evaluator reads is either written earlier in the same invocation on every path, or written by no evaluator at all and assigned during construction')
    ctx.rule('C10.P3', 'nothing a static local kept from an earlier call reaches a result, branch or store of an evaluator (a static overwritten before it is read is scratch space, not state); no mutable global or static data member is read, no rand/time/input call is reachable')
    ctx.rule('C10.P5', 'masa_master<double>() and masa_master<long double>() return two distinct global registries')
    ctx.explanation = ('P1-P3 imply that an evaluator\'s result is a function of the registered parameters\' current values and its arguments, and that it changes no '
                       'parameter; this holds for every call history because it is a property of the code on every path, not of a sampled sequence. '
                       'The API layer stores nothing (C15.R2 shape). Sound modulo aliasing: members are reached only through this and vararr/vecarr, and the latter '
                       'are indexed only by set/get/purge (C11), which evaluators may not call (P1 flags set_var).')
    n_eval = 0
    for scalar in cat.SCALARS:
        sc = 'ld' if scalar == 'long double' else 'd'
        fn, ents, other = cat.entries(prog, scalar)
        for cls, _, _ in ents:
            short = cat.short(cls)
            regs = cat.registrations(prog, cls)
            regmap = {r['name']: '.'.join(r['path'][1:]) for r in regs if r['name'] is not None and r['path'] and r['path'][0] == 'this'}
            regpaths = set('.'.join(r['path'][1:]) for r in regs if r['path'] and r['path'][0] == 'this')
            evs = evaluator_overrides(prog, cls, scalar)
            results = {}
            W_all = {}
            for name, sig, f in evs:
                E = terms.Evaluator(prog, dyn_class=cls, scalar=scalar, regmap=regmap)
                outs_ = E.run(f)
                E.trace.paths = list(outs_) + [p_ for p_ in E.trace.exit_paths if p_ not in outs_]
                results[(name, sig)] = (f, E.trace)
                for pth, locs in E.trace.writes.items():
                    W_all.setdefault(pth, []).append((name, locs[0]))
            ctor_w, pointee, derived = ctor_written_members(prog, cls, regmap, scalar) if evs else (set(), {}, {})
            for (name, sig), (f, tr) in results.items():
                n_eval += 1
                key = '%s::%s|%s|%s' % (short, name, sig.replace(scalar, 'S'), sc)
                # ---- P1
                bad = sorted(p for p in tr.writes if p in regpaths or p == '*unknown')
                sv = [c for c in tr.setvar_calls]
                if sv and not bad:
                    bad = ['set_var("%s")' % c[0] for c in sv]
                ctx.ob('C10.P1', key, not bad, f.where,
                       '%s::%s writes registered parameter(s) %s at %s' % (short, name, bad, [tr.writes.get(b, ['?'])[0] for b in bad][:3]),
                       sample='%s writes only %s' % (key, sorted(tr.writes)[:4]))
                # ---- P2
                probs = []
                for pth, loc in tr.pre_reads.items():
                    base = pth.rstrip('*')
                    if pth.endswith('*') and base in pointee and base not in W_all:
                        pth = base = pointee[base]      # pointer member fixed at construction: the read is a read of its target
                    if base in regpaths:
                        continue
                    if pth.startswith(('global:', 'const:')):
                        continue
                    if pth in W_all:
                        w = W_all[pth][0]
                        probs.append('reads cached member `%s` at %s before writing it in this call; it is written by %s (%s): value depends on earlier calls' % (pth, loc, w[0], w[1]))
                    elif pth not in ctor_w:
                        probs.append('reads member `%s` at %s which neither this call nor construction assigns' % (pth, loc))
                    elif pth in derived:
                        probs.append('reads member `%s` at %s, which only construction / masa_init_param computes, from the parameters %s: after masa_set_param it is stale' % (
                            pth, loc, sorted(derived[pth])[:4]))
                ctx.ob('C10.P2', key, not probs, f.where, '; '.join(probs[:3]),
                       sample='%s: %d members read on entry, all registered or construction-time constants; %d cached members rewritten before use' % (
                           key, len(tr.pre_reads), len([w for w in tr.writes if w not in regpaths])),
                       nontrivial=bool(tr.pre_reads))
                # ---- P3
                probs = []
                undecided = []
                if tr.mutable_statics:
                    # a static local is state only if what it kept from an earlier call can reach a result, a branch or a store of this one
                    used = set()
                    unk = False
                    for o_ in tr.paths:
                        ts_ = ([o_.ret] if o_.ret is not None else []) + list(o_.conds) + [v_ for v_ in o_.mem.values() if isinstance(v_, tuple)]
                        from ..api import flat as flat_events
                        for e_ in flat_events(o_.events):
                            if e_[0] != 'delta':        # deltas describe how a loop updates its own local variables
                                ts_ += [x_ for x_ in e_[1:] if isinstance(x_, tuple)]
                        for e_ in o_.events:
                            if e_[0] == 'loop' and e_[1][0] is not None:
                                ts_.append(e_[1][0])
                        for t_ in ts_:
                            for x_ in terms.subterms(t_):
                                if x_[0] == 'sym' and isinstance(x_[1], str) and x_[1].startswith('static:'):
                                    used.add(x_[1].split(':')[-1])
                        unk = unk or (o_.ret is not None and terms.has_unk(o_.ret))
                    for nm, loc in tr.mutable_statics:
                        if nm in used:
                            probs.append('static local `%s` at %s: the value it kept from an earlier call reaches the result of this one' % (nm, loc))
                        elif unk:
                            undecided.append('static local `%s` at %s and a result the analysis does not resolve: not decided' % (nm, loc))
                for q, (const, loc) in tr.globals_read.items():
                    if not const and not q.startswith(ALLOWED_GLOBALS):
                        probs.append('reads mutable global `%s` at %s' % (q, loc))
                for q, locs in tr.globals_written.items():
                    probs.append('writes global `%s` at %s' % (q, locs[0]))
                for q, loc in tr.lib_calls + tr.unknown_calls:
                    if q.split('::')[-1].split('<')[0] in BANNED:
                        probs.append('calls %s at %s' % (q, loc))
                ctx.ob('C10.P3', key, (not probs) if (probs or not undecided) else None, f.where, '; '.join((probs or undecided)[:3]),
                       sample='%s: no static/global state reaches the result, %d callees inlined' % (key, len(tr.inlined)), nontrivial=False)
                if tr.too_many_paths:
                    raise AnalysisBroken('%s: path limit reached' % key)
    ctx.floor('evaluator_overrides_analysed', n_eval, 2 * 225)
    # ---- P5: the accessors evaluated (helpers / tag dispatch inlined) return two different global objects of the right types
    from .. import api
    regs = api.registry_globals(prog)
    gq = {sc_: r[len('global:'):] for sc_, r in regs.items()}
    tys = {sc_: str(prog.vars.get(gq[sc_], {}).get('t', '')) for sc_ in gq}
    ok = gq['double'] != gq['long double'] and 'MasterMS<double>' in tys['double'] and 'MasterMS<long double>' in tys['long double']
    fs = [f for f in prog.functions if f.n == 'masa_master']
    ctx.ob('C10.P5', 'distinct-registries', ok, fs[0].where if fs else '', 'masa_master<double>/<long double> return %s (%s) / %s (%s)' % (
        gq['double'], tys['double'], gq['long double'], tys['long double']), sample='%s vs %s' % (gq['double'], gq['long double']))
