"""C08 - conjugate-normal posterior (decided) and Sod shock tube (declared undecided)."""
from fractions import Fraction
from .. import residual as rs, poly, terms
from .. import catalogue as cat
from ..report import AnalysisBroken

LEVEL = 'other'
S = poly.sym
add, mul, d = poly.add, poly.mul, poly.diff


def ev_int(prog, cls, scalar, name, k):
    """cp_normal::name(int) with the int argument bound to the constant k (constant propagation)"""
    owner, m = cat.resolve_virtual(prog, cls, name, '%s (int)' % scalar)
    fn = prog.fn(owner + '::' + name, '%s (int)' % scalar)[0]
    E = terms.Evaluator(prog, dyn_class=cls, scalar=scalar)
    outs = E.run(fn, bind={0: terms.num(k)})
    if len(outs) != 1 or outs[0].ret is None or terms.has_unk(outs[0].ret):
        raise AnalysisBroken('cp_normal::%s(%d) does not reduce to one expression' % (name, k))
    return poly.from_term(outs[0].ret), fn


def split_exp(p):
    """p = c * (x-free factor) * exp(E): returns (prefactor poly, E poly) or None"""
    p = poly.reduce_trig(p)
    if len(p) != 1:
        return None
    (m, c), = p.items()
    ex = [(a, e) for a, e in m if a[0] == 'fn' and a[1] == 'exp']
    if len(ex) != 1 or ex[0][1] != 1:
        return None
    rest = tuple((a, e) for a, e in m if not (a[0] == 'fn' and a[1] == 'exp'))
    return {rest: c}, poly.uncanon(ex[0][0][2][0])


def run(ctx, prog):
    ctx.rule('C08.DENSITY', 'eval_prior is the normalised normal density exp(-(x-m)^2/(2 sigma^2))/sqrt(2 pi sigma^2); eval_posterior the same with '
             'sigma_p^2 = 1/(1/sigma^2 + n/sigma_d^2), m_p = sigma_p^2 (m/sigma^2 + n xbar/sigma_d^2); n = size of the data vector, xbar its mean as the code computes it')
    ctx.rule('C08.PROP', 'posterior is proportional to likelihood times prior: the exponent of posterior minus those of prior and likelihood has zero derivative in x')
    ctx.rule('C08.LOG', 'eval_likelyhood equals exp(eval_loglikelyhood)')
    ctx.rule('C08.MOMENTS', 'eval_post_mean equals m_p and eval_post_var equals sigma_p^2 of the posterior density')
    ctx.rule('C08.CENMOM', 'eval_cen_mom(k) is 0 for odd k and sigma^k (k-1)!! for even k, k = 0..20 (the integer argument is propagated as a constant through factorial)')
    ctx.rule('C08.UNI', 'the long double instantiation has the same normal forms')
    ctx.explanation = ('cp_normal is decided by canonical normal form with exp, sqrt, the data-vector size and the data mean (a loop summary) as uninterpreted atoms; the moment orders 0..20 '
                       'are enumerated by constant propagation. The Sod clause (root bracketing of the pressure equation, Rankine-Hugoniot and isentropic relations, wave positions) '
                       'is NOT decided: the solution is produced by a bisection loop whose result is not an expression in the analysed subset.')
    res = {}
    for scalar in cat.SCALARS:
        cls = 'MASA::cp_normal<%s>' % scalar
        ctx.require(cls in prog.records, '%s not in IR' % cls)
        try:
            ev = {}
            for n_, co in (('eval_prior', ['x']), ('eval_posterior', ['x']), ('eval_likelyhood', ['x']), ('eval_loglikelyhood', ['x']),
                           ('eval_post_mean', []), ('eval_post_var', [])):
                ev[n_] = rs.evaluator_poly(prog, cls, scalar, n_, co)
                ctx.require(ev[n_][0] is not None, 'cp_normal::%s missing' % n_)
        except rs.Inconclusive as ex:
            raise AnalysisBroken(str(ex))
        cm = {}
        for k in range(0, 21):
            cm[k] = ev_int(prog, cls, scalar, 'eval_cen_mom', k)
        res[scalar] = ({k: v[0] for k, v in ev.items()}, {k: v[0] for k, v in cm.items()})
        if scalar != 'double':
            continue
        # data mean and size atoms as the code produces them: read them off eval_post_mean
        lik = split_exp(ev['eval_likelyhood'][0])
        pri = split_exp(ev['eval_prior'][0])
        pos = split_exp(ev['eval_posterior'][0])
        for nm, sp in (('eval_likelyhood', lik), ('eval_prior', pri), ('eval_posterior', pos)):
            if sp is None:
                raise AnalysisBroken('cp_normal::%s is not of the form factor * exp(E)' % nm)
        # n and xbar: the likelihood exponent is -(n/(2 sigma_d^2)) (x - xbar)^2
        E_l = lik[1]
        # xbar = -(1/2) * dE/dx / d2E/dx2 ... avoid division: identify atoms instead
        atoms = set()
        for m_ in E_l:
            for a, e in m_:
                if a[0] == 'fn' and a[1] in ('loop', 'size', 'loopvar'):
                    atoms.add(a)
        size_atoms = [a for a in atoms if a[1] == 'size']
        if len(size_atoms) != 1:
            raise AnalysisBroken('cp_normal: data-vector size atom not found in the likelihood')
        nvec = poly.atom(size_atoms[0])
        # xbar = sum / n: recover as the x-independent root: E_l = -(n/(2 sd^2)) (x^2 - 2 x xbar + xbar^2)
        two_sd2 = poly.scale(mul(S('sigma_d'), S('sigma_d')), 2)
        lin = {m_: c for m_, c in d(E_l, 'x').items() if not poly.depends({m_: c}, 'x')}      # = n xbar / sd^2
        xbar = mul(mul(lin, mul(S('sigma_d'), S('sigma_d'))), poly.inverse(nvec))
        want_l = poly.neg(mul(mul(nvec, poly.inverse(two_sd2)), poly.ipow(add(S('x'), xbar, -1), 2)))
        rs.compare(ctx, 'C08.DENSITY', 'likelihood-exponent', E_l, want_l, ev['eval_likelyhood'][1].where, 'exponent of cp_normal::eval_likelyhood')
        rs.compare(ctx, 'C08.DENSITY', 'likelihood-prefactor', lik[0], poly.const(1), ev['eval_likelyhood'][1].where, 'prefactor of cp_normal::eval_likelyhood')

        def density(mean, var):
            norm = poly.from_term(('call', 'sqrt', (('mul', (('num', Fraction(2)), ('sym', 'pi'), ('sym', '__v'))),)), {'__v': var})
            expo = poly.neg(mul(poly.ipow(add(S('x'), mean, -1), 2), poly.inverse(poly.scale(var, 2))))
            return poly.inverse(norm), expo
        s2 = mul(S('sigma'), S('sigma'))
        pf, ex_ = density(S('m'), s2)
        rs.compare(ctx, 'C08.DENSITY', 'prior-normaliser', pri[0], pf, ev['eval_prior'][1].where, 'normalising factor of cp_normal::eval_prior')
        rs.compare(ctx, 'C08.DENSITY', 'prior-exponent', pri[1], ex_, ev['eval_prior'][1].where, 'exponent of cp_normal::eval_prior')
        var_p = poly.inverse(add(poly.inverse(s2), mul(nvec, poly.inverse(mul(S('sigma_d'), S('sigma_d'))))))
        mean_p = mul(var_p, add(mul(S('m'), poly.inverse(s2)), mul(mul(nvec, xbar), poly.inverse(mul(S('sigma_d'), S('sigma_d'))))))
        pf, ex_ = density(mean_p, var_p)
        rs.compare(ctx, 'C08.DENSITY', 'posterior-normaliser', pos[0], pf, ev['eval_posterior'][1].where, 'normalising factor of cp_normal::eval_posterior')
        rs.compare(ctx, 'C08.DENSITY', 'posterior-exponent', pos[1], ex_, ev['eval_posterior'][1].where, 'exponent of cp_normal::eval_posterior')
        rs.compare(ctx, 'C08.PROP', 'posterior~likelihood*prior', d(add(add(pos[1], pri[1], -1), lik[1], -1), 'x'), {}, ev['eval_posterior'][1].where,
                   'd/dx of (posterior exponent - prior exponent - likelihood exponent)')
        explog = poly.from_term(('call', 'exp', (('sym', '__e'),)), {'__e': ev['eval_loglikelyhood'][0]})
        rs.compare(ctx, 'C08.LOG', 'likelihood==exp(loglikelihood)', ev['eval_likelyhood'][0], explog, ev['eval_loglikelyhood'][1].where, 'cp_normal::eval_likelyhood vs exp(eval_loglikelyhood)')
        rs.compare(ctx, 'C08.MOMENTS', 'post_mean', ev['eval_post_mean'][0], mean_p, ev['eval_post_mean'][1].where, 'cp_normal::eval_post_mean')
        rs.compare(ctx, 'C08.MOMENTS', 'post_var', ev['eval_post_var'][0], var_p, ev['eval_post_var'][1].where, 'cp_normal::eval_post_var')
        for k in range(0, 21):
            if k % 2:
                want = {}
            else:
                df = 1
                for j in range(k - 1, 0, -2):
                    df *= j
                want = poly.scale(poly.ipow(S('sigma'), k), df)
            rs.compare(ctx, 'C08.CENMOM', 'k=%d' % k, cm[k][0], want, cm[k][1].where, 'cp_normal::eval_cen_mom(%d)' % k)
    ctx.ob('C08.UNI', 'cp_normal', res['double'] == res['long double'], '', 'double and long double instantiations are different expressions', sample='27 evaluations identical')
    ctx.note('Sod clause not decided by this family (bisection loop); sod_1d is covered by C10, C11, C14, C15, C16 only')
    ctx.trusted = ['clang 14 front end', 'tools/masa-ir', 'sa/terms.py', 'sa/poly.py', 'the density formulas in sa/checks/c08.py']
