"""C08 - conjugate-normal posterior (decided) and Sod shock tube (declared undecided)."""
from fractions import Fraction
from .. import residual as rs, poly, terms
from .. import catalogue as cat
from ..report import AnalysisBroken

LEVEL = 'other'
S = poly.sym
add, mul, d = poly.add, poly.mul, poly.diff


def ev_int(prog, cls, scalar, name, k):
    """cp_normal::name(int) with the int argument bound to the constant k (constant propagation)"""
    owner, m = cat.resolve_virtual(prog, cls, name, '%s (int)' % scalar)
    fn = prog.fn(owner + '::' + name, '%s (int)' % scalar)[0]
    E = terms.Evaluator(prog, dyn_class=cls, scalar=scalar)
    outs = E.run(fn, bind={0: terms.num(k)})
    if E.trace.int_overflow:
        return ('overflow', E.trace.int_overflow[0]), fn
    if len(outs) != 1 or outs[0].ret is None or terms.has_unk(outs[0].ret):
        raise AnalysisBroken('cp_normal::%s(%d) does not reduce to one expression' % (name, k))
    return poly.from_term(outs[0].ret), fn


def split_exp(p):
    """p = c * (x-free factor) * exp(E): returns (prefactor poly, E poly) or None"""
    p = poly.reduce_trig(p)
    if len(p) != 1:
        return None
    (m, c), = p.items()
    ex = [(a, e) for a, e in m if a[0] == 'fn' and a[1] == 'exp']
    if len(ex) != 1 or ex[0][1] != 1:
        return None
    rest = tuple((a, e) for a, e in m if not (a[0] == 'fn' and a[1] == 'exp'))
    return {rest: c}, poly.uncanon(ex[0][0][2][0])


def sod_paths(prog, cls, scalar, name):
    """feasible paths of sod_1d::name(x,t) with the bisection result kept as the opaque atom @root(lo,hi)"""
    fn = [f for f in prog.methods_of(cls) if f.n == name and len(f.params) == 2]
    if len(fn) != 1:
        raise AnalysisBroken('sod_1d::%s(x,t) not found' % name)
    E = terms.Evaluator(prog, dyn_class=cls, scalar=scalar)
    roots = []

    def hook(e, opath, n, args):
        if n == 'rtbis':
            a = args()
            roots.append(a)
            return ('call', '@root', a[:2])
        return None
    E.opaque_hook = hook
    outs = E.run(fn[0], arg_names=['x', 't'])
    res = []
    for o in outs:
        cs = o.conds
        if any(('not', c) in cs for c in cs):
            continue            # contradictory repetition of the same test
        uniq = []
        for c in cs:
            if c not in uniq:
                uniq.append(c)
        if o.kind != 'ret' or o.ret is None or terms.has_unk(o.ret):
            raise AnalysisBroken('sod_1d::%s: a path is not a single expression' % name)
        # helpers with several return statements and ternaries select a value: same thing as branching
        for cs2, r2 in terms.split_ite(uniq, o.ret):
            if not any(('not', c) in cs2 for c in cs2):
                res.append((cs2, r2))
    return fn[0], res, roots


def check_sod(ctx, prog):
    """The region structure and every closed-form relation of Sod's solution, with the root of the pressure function opaque"""
    S_ = poly.sym
    res = {}
    for scalar in cat.SCALARS:
        cls = 'MASA::sod_1d<%s>' % scalar
        ctx.require(cls in prog.records, '%s not in IR' % cls)
        G = S_('Gamma')
        gm1 = add(G, poly.const(-1))
        gp1 = add(G, poly.const(1))
        m2 = mul(gm1, poly.inverse(gp1))            # (gamma-1)/(gamma+1), Sod's mu^2
        pl, pr, rhol, rhor = poly.const(1), poly.const(Fraction(1, 8)), poly.const(1), poly.const(Fraction(1, 8))
        T = lambda t, env=None: poly.from_term(t, env)
        cl = T(('call', 'sqrt', (('sym', '__a'),)), {'__a': mul(mul(G, pl), poly.inverse(rhol))})
        cr = T(('call', 'sqrt', (('sym', '__a'),)), {'__a': mul(mul(G, pr), poly.inverse(rhor))})
        pm = poly.atom(('fn', '@root', (poly.canon(pr), poly.canon(pl))))
        powp = lambda base, ex: poly.atom(('fn', 'pow', (poly.canon(poly.reduce_trig(base)), poly.canon(poly.reduce_trig(ex)))))
        one = poly.const(1)
        vm = mul(mul(poly.scale(cl, 2), poly.inverse(gm1)), add(one, powp(mul(pm, poly.inverse(pl)), mul(gm1, poly.inverse(poly.scale(G, 2)))), -1))
        rho3 = mul(rhol, powp(mul(pm, poly.inverse(pl)), poly.inverse(G)))
        rho2 = mul(rhor, mul(add(pm, mul(m2, pr)), poly.inverse(add(pr, mul(m2, pm)))))
        vs = mul(vm, poly.inverse(add(one, mul(rhor, poly.inverse(rho2)), -1)))
        vt = add(cl, mul(vm, poly.inverse(add(one, m2, -1))), -1)
        x, t = S_('x'), S_('t')
        fan_rho = mul(rhol, powp(add(poly.neg(mul(m2, mul(x, poly.inverse(mul(cl, t))))), add(one, m2, -1)), poly.scale(poly.inverse(gm1), 2)))
        fan_u = mul(add(one, m2, -1), add(mul(x, poly.inverse(t)), cl))
        bounds = [poly.neg(mul(cl, t)), poly.neg(mul(vt, t)), mul(vm, t), mul(vs, t)]
        dens = [rhol, fan_rho, rho3, rho2, rhor]
        vel = [{}, fan_u, vm, vm, {}]
        out = {}
        for name, vals in (('eval_q_rho', dens), ('eval_q_rho_u', [mul(a_, b_) for a_, b_ in zip(dens, vel)])):
            fn, paths, roots = sod_paths(prog, cls, scalar, name)
            # keep only paths consistent with the ordering of the wave positions (boundary_0 < ... < boundary_3,
            # i.e. -c_l < -v_t < v_m < v_s): region r passes test i iff r <= i
            if name == 'eval_q_rho':
                order = []
                for conds, ret in paths:
                    for c in conds:
                        cc = c[1] if c[0] == 'not' else c
                        if cc[0] == 'cmp':
                            b = poly.canon(poly.reduce_trig(poly.from_term(cc[3])))
                            if b not in order:
                                order.append(b)
            else:
                kept = []
                for conds, ret in paths:
                    facts = []
                    okp = True
                    for c in conds:
                        cc = c[1] if c[0] == 'not' else c
                        b = poly.canon(poly.reduce_trig(poly.from_term(cc[3]))) if cc[0] == 'cmp' else None
                        if b not in order:
                            okp = None
                            break
                        facts.append((order.index(b), c[0] != 'not'))
                    if okp is None or any(all((r <= i) == tv for i, tv in facts) for r in range(len(order) + 1)):
                        # reduce to the canonical chain: failed tests 0..r-1, passed test r
                        kept.append((conds, ret, facts))
                merged = []
                for conds, ret, facts in kept:
                    r = min([i for i, tv in facts if tv] or [len(order)])
                    canon_conds = [c for c in conds if (c[1] if c[0] == 'not' else c)[0] == 'cmp']
                    # rebuild the ordered chain from the density function's tests
                    merged.append((r, ret))
                merged.sort(key=lambda z: z[0])
                paths = [(chain[r_], ret) for r_, ret in merged] if len(merged) == len(chain) else [(c_, r_) for c_, r_, f_ in kept]
            if name == 'eval_q_rho':
                chain = [conds for conds, ret in paths]
            out[name] = [(repr(c), poly.from_term(r)) for c, r in paths]
            if scalar != 'double':
                continue
            ok = len(paths) == 5
            ctx.ob('C08.SOD-REGIONS', '%s|five-regions' % name, ok, fn.where, 'sod_1d::%s has %d feasible regions, expected 5 (left state, fan, post-fan, post-shock, right state)' % (name, len(paths)),
                   sample='%s: 5 regions' % name)
            if not ok:
                continue
            for i, (conds, ret) in enumerate(paths):
                # region i is reached by failing the first i tests and passing test i
                want_n = min(i + 1, 4)
                good = len(conds) == want_n
                if good:
                    for j, c in enumerate(conds):
                        neg_ = c[0] == 'not'
                        cc = c[1] if neg_ else c
                        good = good and cc[0] == 'cmp' and cc[1] == '<=' and poly.equal(poly.from_term(cc[2]), x) and (neg_ == (j < i))
                ctx.ob('C08.SOD-REGIONS', '%s|region-%d|tests' % (name, i), good, fn.where, 'region %d of sod_1d::%s is not selected by the chain x <= boundary_j t' % (i, name),
                       sample='region %d: %d ordered tests on x' % (i, want_n))
                if good and i < 4:
                    cc = conds[-1] if conds[-1][0] != 'not' else conds[-1][1]
                    rs.compare(ctx, 'C08.SOD-FORM', '%s|boundary-%d' % (name, i), poly.from_term(cc[3]), bounds[i], fn.where,
                               'wave position %d of sod_1d::%s (%s)' % (i, name, ['head of the fan', 'tail of the fan', 'contact', 'shock'][i]))
                rs.compare(ctx, 'C08.SOD-FORM', '%s|value-%d' % (name, i), poly.from_term(ret), vals[i], fn.where,
                           'value of sod_1d::%s in region %d (%s)' % (name, i, ['left state', 'rarefaction fan', 'post-fan', 'post-shock', 'right state'][i]))
            for a in roots:
                okb = poly.equal(poly.from_term(a[0]), pr) and poly.equal(poly.from_term(a[1]), pl)
                ctx.ob('C08.SOD-FORM', '%s|bracket' % name, okb, fn.where, 'the pressure root is not bracketed by [p_right, p_left]', sample='rtbis(pr, pl, eps, 100)')
        # the pressure function whose root is taken
        ff = [f for f in prog.methods_of(cls) if f.n == 'func']
        ctx.require(len(ff) == 1, 'sod_1d::func not found')
        E = terms.Evaluator(prog, dyn_class=cls, scalar=scalar)
        # func reads the cached states written by its callers: provide them through the same literals
        o = E.run(ff[0], arg_names=['pm'])
        ctx.require(len(o) == 1 and o[0].ret is not None, 'sod_1d::func is not a single expression')
        env = {'pl': pl, 'pr': pr, 'cl': cl, 'cr': cr, 'rhol': rhol, 'rhor': rhor}
        got = poly.from_term(o[0].ret, env)
        out['func'] = got
        if scalar == 'double':
            P = S_('pm')
            fan = mul(mul(poly.scale(cl, 2), poly.inverse(mul(cr, gm1))), add(one, powp(mul(P, poly.inverse(pl)), mul(gm1, poly.inverse(poly.scale(G, 2)))), -1))
            shock = mul(add(mul(P, poly.inverse(pr)), one, -1),
                        poly.sqrt_of(mul(add(one, m2, -1), poly.inverse(mul(G, add(m2, mul(P, poly.inverse(pr))))))))
            rs.compare(ctx, 'C08.SOD-FORM', 'func', got, add(shock, fan, -1), ff[0].where, 'sod_1d::func (u_shock(p) - u_fan(p), scaled by 1/c_r)')
        # ---- the bisection loop: convergence tests must be two-sided (Engler-style contradiction: one exit tests |dx|, the other a bare signed value)
        rt = [f for f in prog.methods_of(cls) if f.n == 'rtbis']
        ctx.require(len(rt) == 1, 'sod_1d::rtbis not found')
        if scalar == 'double':
            from ..ast import nodes, strip, flat_stmts, show, assigned_in
            loops = [l_ for kind in ('for', 'while', 'do') for l_ in nodes(rt[0].body, kind) if any(c_.get('n') == 'func' for c_ in nodes(l_.get('body'), 'call'))]
            ctx.require(len(loops) == 1, 'sod_1d::rtbis: bisection loop not found')
            exits = [n for n in nodes(loops[0]['body'], 'if') if any(True for _ in nodes(n['then'], 'return')) or any(True for _ in nodes(n['then'], 'break'))]
            # a condition held in a local flag (`const bool converged = ...; if (converged)`) is the flag's initialiser
            flag_init = {}
            for dcl in nodes(rt[0].body, 'decl'):
                for v_ in dcl['vars']:
                    if v_.get('init') is not None:
                        flag_init[v_['id']] = v_['init']
            ctx.require(len(exits) >= 1, 'sod_1d::rtbis: no convergence exit inside the loop')
            for ex_ in exits:
                disj = []

                def split(c, depth=0):
                    c = strip(c, casts=True)
                    if c.get('k') == 'local' and c['id'] in flag_init and depth < 4 and not assigned_in(rt[0].body, c['id']):
                        return split(flag_init[c['id']], depth + 1)
                    if c.get('k') == 'bin' and c['op'] == '||':
                        split(c['a'])
                        split(c['b'])
                    else:
                        disj.append(c)
                split(ex_['c'])
                for c in disj:
                    ok = c.get('k') == 'bin' and c['op'] in ('<', '<=') and strip(c['a'], casts=True).get('k') == 'call' and strip(c['a'], casts=True).get('n') in ('abs', 'fabs')
                    ctx.ob('C08.SOD-BISECT', 'convergence-test|%s' % c.get('l'), ok, c.get('l') or rt[0].where,
                           'bisection stops when `%s`: a one-sided test on a signed quantity is true for every negative value, so the loop stops at the first midpoint left of the root' % show(c),
                           sample='|quantity| < tolerance')
            br = [n for n in nodes(rt[0].body, 'if') if any(c_.get('n') == 'masa_exit' for c_ in nodes(n['then'], 'call'))]
            ctx.ob('C08.SOD-BISECT', 'bracket-check', len(br) == 1 and strip(br[0]['c'], casts=True).get('op') == '>=', rt[0].where,
                   'rtbis does not reject an interval whose end values have the same sign', sample='f(x1)*f(x2) >= 0 is fatal')
        res[scalar] = out
    ctx.ob('C08.UNI', 'sod_1d', res['double'] == res['long double'], '', 'sod_1d: instantiations differ', sample='regions identical in both instantiations')


def run(ctx, prog):
    ctx.rule('C08.SOD-REGIONS', 'sod_1d density and momentum have exactly five regions selected by an ordered chain of tests x <= (wave speed) t')
    ctx.rule('C08.SOD-FORM', "with p* the (opaque) root of the pressure function on [p_r, p_l] and mu^2 = (Gamma-1)/(Gamma+1) of the CURRENT Gamma: wave positions -c_l t, -v_t t, v_m t, v_s t and region values "
             'equal Sod\'s closed forms (isentropic fan and post-fan state, Rankine-Hugoniot post-shock density, shock speed from mass conservation, common contact velocity); '
             'the function whose root is taken is u_shock(p) - u_fan(p)')
    ctx.rule('C08.SOD-BISECT', 'the bisection loop of sod_1d::rtbis leaves early only on two-sided (absolute value) tests and rejects unbracketed intervals')
    ctx.rule('C08.DENSITY', 'eval_prior is the normalised normal density exp(-(x-m)^2/(2 sigma^2))/sqrt(2 pi sigma^2); eval_posterior the same with '
             'sigma_p^2 = 1/(1/sigma^2 + n/sigma_d^2), m_p = sigma_p^2 (m/sigma^2 + n xbar/sigma_d^2); n = size of the data vector, xbar its mean as the code computes it')
    ctx.rule('C08.PROP', 'posterior is proportional to likelihood times prior: the exponent of posterior minus those of prior and likelihood has zero derivative in x')
    ctx.rule('C08.LOG', 'eval_likelyhood equals exp(eval_loglikelyhood)')
    ctx.rule('C08.MOMENTS', 'eval_post_mean equals m_p and eval_post_var equals sigma_p^2 of the posterior density')
    ctx.rule('C08.CENMOM', 'eval_cen_mom(k) is 0 for odd k and sigma^k (k-1)!! for even k, k = 0..20 (the integer argument is propagated as a constant through factorial)')
    ctx.rule('C08.MEAN', 'the data mean used by the likelihood/posterior is (sum of all elements of vec_data) / vec_data.size()')
    ctx.rule('C08.UNI', 'the long double instantiation has the same normal forms')
    ctx.explanation = ('cp_normal is decided by canonical normal form with exp, sqrt, the data-vector size and the data mean (a loop summary) as uninterpreted atoms; the moment orders 0..20 '
                       'are enumerated by constant propagation. The Sod clause (root bracketing of the pressure equation, Rankine-Hugoniot and isentropic relations, wave positions) '
                       'is NOT decided: the solution is produced by a bisection loop whose result is not an expression in the analysed subset.')
    res = {}
    for scalar in cat.SCALARS:
        cls = 'MASA::cp_normal<%s>' % scalar
        ctx.require(cls in prog.records, '%s not in IR' % cls)
        try:
            ev = {}
            for n_, co in (('eval_prior', ['x']), ('eval_posterior', ['x']), ('eval_likelyhood', ['x']), ('eval_loglikelyhood', ['x']),
                           ('eval_post_mean', []), ('eval_post_var', [])):
                ev[n_] = rs.evaluator_poly(prog, cls, scalar, n_, co)
                ctx.require(ev[n_][0] is not None, 'cp_normal::%s missing' % n_)
        except rs.Inconclusive as ex:
            raise AnalysisBroken(str(ex))
        cm = {}
        for k in range(0, 21):
            cm[k] = ev_int(prog, cls, scalar, 'eval_cen_mom', k)
        res[scalar] = ({k: v[0] for k, v in ev.items()}, {k: (v[0] if isinstance(v[0], dict) else repr(v[0])) for k, v in cm.items()})
        if scalar != 'double':
            continue
        # data mean and size atoms as the code produces them: read them off eval_post_mean
        lik = split_exp(ev['eval_likelyhood'][0])
        pri = split_exp(ev['eval_prior'][0])
        pos = split_exp(ev['eval_posterior'][0])
        for nm, sp in (('eval_likelyhood', lik), ('eval_prior', pri), ('eval_posterior', pos)):
            if sp is None:
                raise AnalysisBroken('cp_normal::%s is not of the form factor * exp(E)' % nm)
        # n and xbar: the likelihood exponent is -(n/(2 sigma_d^2)) (x - xbar)^2
        E_l = lik[1]
        # xbar = -(1/2) * dE/dx / d2E/dx2 ... avoid division: identify atoms instead
        atoms = set()
        for m_ in E_l:
            for a, e in m_:
                if a[0] == 'fn' and a[1] in ('loop', 'size', 'loopvar', 'vsum'):
                    atoms.add(a)
        size_atoms = [a for a in atoms if a[1] == 'size']
        if len(size_atoms) != 1:
            raise AnalysisBroken('cp_normal: data-vector size atom not found in the likelihood')
        nvec = poly.atom(size_atoms[0])
        # xbar = sum / n: recover as the x-independent root: E_l = -(n/(2 sd^2)) (x^2 - 2 x xbar + xbar^2)
        two_sd2 = poly.scale(mul(S('sigma_d'), S('sigma_d')), 2)
        lin = {m_: c for m_, c in d(E_l, 'x').items() if not poly.depends({m_: c}, 'x')}      # = n xbar / sd^2
        xbar = mul(mul(lin, mul(S('sigma_d'), S('sigma_d'))), poly.inverse(nvec))
        # the data mean is the sum of ALL elements of vec_data divided by their number (index loop over [0,size), iterator
        # loop over [begin,end) or std::accumulate over the same range: one term, vsum)
        total = mul(xbar, nvec)
        vs = poly.from_term(('call', 'vsum', (('sym', 'vec_data'),)))
        summary_atoms = [a for m_ in total for a, e in m_ if a[0] == 'fn' and a[1] in ('loop', 'loopvar')]
        if poly.add(total, vs, -1) == {}:
            ctx.ob('C08.MEAN', 'data-mean', True, ev['eval_likelyhood'][1].where, sample='n * xbar = sum of all elements of vec_data')
        elif summary_atoms:
            ctx.ob('C08.MEAN', 'data-mean', None, ev['eval_likelyhood'][1].where, 'the data mean is accumulated by a loop the sum idiom does not cover: not decided')
        else:
            ctx.ob('C08.MEAN', 'data-mean', False, ev['eval_likelyhood'][1].where,
                   'n * (data mean used by eval_likelyhood) is %s, expected the sum of all elements of vec_data' % poly.fmt(total)[:160])
        want_l = poly.neg(mul(mul(nvec, poly.inverse(two_sd2)), poly.ipow(add(S('x'), xbar, -1), 2)))
        rs.compare(ctx, 'C08.DENSITY', 'likelihood-exponent', E_l, want_l, ev['eval_likelyhood'][1].where, 'exponent of cp_normal::eval_likelyhood')
        rs.compare(ctx, 'C08.DENSITY', 'likelihood-prefactor', lik[0], poly.const(1), ev['eval_likelyhood'][1].where, 'prefactor of cp_normal::eval_likelyhood')

        def density(mean, var):
            norm = poly.from_term(('call', 'sqrt', (('mul', (('num', Fraction(2)), ('sym', 'pi'), ('sym', '__v'))),)), {'__v': var})
            expo = poly.neg(mul(poly.ipow(add(S('x'), mean, -1), 2), poly.inverse(poly.scale(var, 2))))
            return poly.inverse(norm), expo
        s2 = mul(S('sigma'), S('sigma'))
        pf, ex_ = density(S('m'), s2)
        rs.compare(ctx, 'C08.DENSITY', 'prior-normaliser', pri[0], pf, ev['eval_prior'][1].where, 'normalising factor of cp_normal::eval_prior')
        rs.compare(ctx, 'C08.DENSITY', 'prior-exponent', pri[1], ex_, ev['eval_prior'][1].where, 'exponent of cp_normal::eval_prior')
        var_p = poly.inverse(add(poly.inverse(s2), mul(nvec, poly.inverse(mul(S('sigma_d'), S('sigma_d'))))))
        mean_p = mul(var_p, add(mul(S('m'), poly.inverse(s2)), mul(mul(nvec, xbar), poly.inverse(mul(S('sigma_d'), S('sigma_d'))))))
        pf, ex_ = density(mean_p, var_p)
        rs.compare(ctx, 'C08.DENSITY', 'posterior-normaliser', pos[0], pf, ev['eval_posterior'][1].where, 'normalising factor of cp_normal::eval_posterior')
        rs.compare(ctx, 'C08.DENSITY', 'posterior-exponent', pos[1], ex_, ev['eval_posterior'][1].where, 'exponent of cp_normal::eval_posterior')
        rs.compare(ctx, 'C08.PROP', 'posterior~likelihood*prior', d(add(add(pos[1], pri[1], -1), lik[1], -1), 'x'), {}, ev['eval_posterior'][1].where,
                   'd/dx of (posterior exponent - prior exponent - likelihood exponent)')
        explog = poly.from_term(('call', 'exp', (('sym', '__e'),)), {'__e': ev['eval_loglikelyhood'][0]})
        rs.compare(ctx, 'C08.LOG', 'likelihood==exp(loglikelihood)', ev['eval_likelyhood'][0], explog, ev['eval_loglikelyhood'][1].where, 'cp_normal::eval_likelyhood vs exp(eval_loglikelyhood)')
        rs.compare(ctx, 'C08.MOMENTS', 'post_mean', ev['eval_post_mean'][0], mean_p, ev['eval_post_mean'][1].where, 'cp_normal::eval_post_mean')
        rs.compare(ctx, 'C08.MOMENTS', 'post_var', ev['eval_post_var'][0], var_p, ev['eval_post_var'][1].where, 'cp_normal::eval_post_var')
        for k in range(0, 21):
            if k % 2:
                want = {}
            else:
                df = 1
                for j in range(k - 1, 0, -2):
                    df *= j
                want = poly.scale(poly.ipow(S('sigma'), k), df)
            if isinstance(cm[k][0], tuple):
                ty, loc, what = cm[k][0][1]
                ctx.ob('C08.CENMOM', 'k=%d|overflow' % k, False, loc or cm[k][1].where,
                       'cp_normal::eval_cen_mom(%d): signed overflow of %s while computing %s (undefined behaviour, value garbage)' % (k, ty, what))
                continue
            rs.compare(ctx, 'C08.CENMOM', 'k=%d' % k, cm[k][0], want, cm[k][1].where, 'cp_normal::eval_cen_mom(%d)' % k)
    ctx.ob('C08.UNI', 'cp_normal', res['double'] == res['long double'], '', 'double and long double instantiations are different expressions', sample='27 evaluations identical')
    check_sod(ctx, prog)
    ctx.note('Sod: the closed-form structure is decided with the root of the pressure function opaque; that the bisection loop converges to that root is not decided')
    ctx.trusted = ['clang 14 front end', 'tools/masa-ir', 'sa/terms.py', 'sa/poly.py', 'the density formulas in sa/checks/c08.py']
