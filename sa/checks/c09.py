"""C09 - working precision, the statically visible half (DESIGN 2, C09).

Evaluated on the long double instantiation of every function reachable from an
evaluator override of a catalogue class (call graph closure with virtual calls
on this resolved per class), plus the API forwarding templates and constants.
"""
from fractions import Fraction
from .. import catalogue as cat
from ..ast import strip, calls, show
from ..ir import walk
from ..report import AnalysisBroken
from .c10 import evaluator_overrides

LEVEL = 'other'
NARROW = ('double', 'float', 'const double', 'const float')
MATHS = {'sin', 'cos', 'tan', 'asin', 'acos', 'atan', 'atan2', 'sinh', 'cosh', 'tanh', 'exp', 'log', 'log10', 'sqrt', 'pow',
         'fabs', 'abs', 'erf', 'erfc', 'cbrt', 'hypot', 'floor', 'ceil', 'fmod'}


def reachable(prog, cls, roots):
    seen = {}
    todo = list(roots)
    while todo:
        f = todo.pop()
        key = (f.q, f.sig)
        if key in seen:
            continue
        seen[key] = f
        for c in calls(f.body):
            if not c.get('inrepo'):
                continue
            tgt = None
            if c.get('virt') and c.get('obj') is not None and strip(c['obj'], casts=True).get('k') == 'this':
                owner, m = cat.resolve_virtual(prog, cls, c['n'], c['sig'])
                if owner:
                    t = prog.fn(owner + '::' + c['n'], c['sig'])
                    tgt = t[0] if t else None
            else:
                t = prog.fn(c['q'], c['sig'])
                tgt = t[0] if t else None
            if tgt is not None:
                todo.append(tgt)
    return seen


def const_value(e):
    """exact rational value of an expression built from literals with + - * / (None when it contains anything else)"""
    e = strip(e, casts=True)
    k = e.get('k')
    if k == 'float':
        try:
            return Fraction(e['sp'].rstrip('fFlL'))
        except (ValueError, ZeroDivisionError):
            return None
    if k == 'int':
        return Fraction(int(e['v']))
    if k == 'un' and e['op'] in ('-', '+'):
        v = const_value(e['e'])
        return None if v is None else (-v if e['op'] == '-' else v)
    if k == 'bin' and e['op'] in ('+', '-', '*', '/'):
        a, b = const_value(e['a']), const_value(e['b'])
        if a is None or b is None or (e['op'] == '/' and b == 0):
            return None
        return {'+': a + b, '-': a - b, '*': a * b, '/': a / b}[e['op']]
    return None


def representable(v, ty):
    """is the rational v a binary floating-point number of the given type (53 / 24 significant bits)"""
    bits = 24 if 'float' in ty else 53
    d = v.denominator
    if d & (d - 1):
        return False
    n = abs(v.numerator)
    while n and n % 2 == 0:
        n //= 2
    return n.bit_length() <= bits


def check_function(ctx, f, key, scalar='long double', skip=()):
    """Q1..Q5 on one function body of the long double instantiation"""
    where = f.where
    q1, q2, q3, q4, q5 = [], [], [], [], []
    for p in f.params:
        if p['t'] in NARROW:
            q2.append('parameter `%s` has type %s' % (p['n'], p['t']))
    if f.ret in NARROW:
        q2.append('returns %s' % f.ret)
    parents = {}
    for n in walk(f.body):
        k = n.get('k')
        if k == 'cast':
            if n['ck'] == 'FloatingCast' and n.get('from') in ('long double', 'const long double') and n['t'] in NARROW:
                q1.append('%s: %s value narrowed to %s (`%s`)' % (n['l'], n['from'], n['t'], show(n['e'])[:50]))
            if n['ck'] == 'FloatingCast' and n.get('from') in ('double', 'float', 'const double', 'const float') and str(n.get('t', '')).replace('const ', '') == scalar:
                # a value computed in double and then widened: exact only if the double expression is exactly representable
                v_ = const_value(n['e'])
                inner_ = strip(n['e'], casts=True)
                if inner_.get('k') == 'call' and not inner_.get('inrepo') and inner_.get('n') in ('accumulate', 'inner_product', 'reduce', 'transform_reduce'):
                    q4.append('%s: %s accumulates in %s (the type of its initial value) and is then widened to %s: every partial sum is rounded to the narrower type' % (
                        n['l'], inner_['n'], n['from'], scalar))
                if inner_.get('k') == 'bin' and inner_['op'] in ('+', '-', '*', '/'):
                    if v_ is None:
                        q4.append('%s: `%s` is computed in %s and then widened to %s' % (n['l'], show(n['e'])[:40], n['from'], scalar))
                    elif not representable(v_, n['from']):
                        q4.append('%s: `%s` = %s is computed in %s, where it is not exactly representable, and then widened to %s: the %s result carries the rounding error of the narrower type' % (
                            n['l'], show(n['e'])[:40], v_, n['from'], scalar, scalar))
            if n['ck'] == 'IntegralToFloating':
                e = strip(n['e'])
                ec = strip(n['e'], casts=True)
                if ec.get('k') == 'call' and not ec.get('inrepo') and ec.get('n') in ('accumulate', 'inner_product', 'reduce', 'transform_reduce'):
                    sg = str(ec.get('sig', ''))
                    if sg[:sg.find('(')].strip() in ('int', 'unsigned int', 'long', 'unsigned long', 'long long', 'short', 'char', 'bool') and \
                            any(w in sg + str(ec.get('q', '')) for w in ('double', 'float')):
                        q5.append('%s: %s over floating-point elements accumulates in %s (the type of its initial value): every partial sum is truncated' % (
                            ec.get('l'), ec['n'], sg[:sg.find('(')].strip()))
                if e.get('k') == 'bin' and e['op'] == '/' and str(e.get('t')) in ('int', 'unsigned int', 'long', 'unsigned long'):
                    a, b = strip(e['a'], casts=True), strip(e['b'], casts=True)
                    if not (a.get('k') == 'int' and b.get('k') == 'int' and int(b['v']) != 0 and int(a['v']) % int(b['v']) == 0):
                        q5.append('%s: integer division `%s` converted to floating point' % (e['l'], show(e)))
        elif k == 'decl':
            for v in n['vars']:
                if v['t'] in NARROW:
                    q2.append('%s: local `%s` has type %s' % (v['l'], v['n'], v['t']))
        elif k in ('global', 'member') and str(n.get('t', '')) in NARROW:
            # a double/float variable outside the function (file-scope constant, static or data member) read by long double code
            q2.append('%s: reads `%s` of type %s' % (n.get('l'), (n.get('q') or n.get('n') or '?').split('::')[-1], n.get('t')))
        elif k == 'call' and not n.get('inrepo') and n.get('n') in MATHS:
            sig = n.get('sig', '')
            args = sig[sig.find('(') + 1: sig.rfind(')')]
            ret = sig[:sig.find('(')].strip()
            if ret in ('double', 'float') or any(a.strip() in ('double', 'float') for a in args.split(',')) and 'long double' not in args:
                q3.append('%s: %s resolves to `%s`' % (n['l'], n['n'], sig))
        elif k == 'float':
            if n['t'] in ('double', 'float') and not n.get('exact'):
                q4.append('%s: literal %s is not exactly representable in %s; the long double result carries its rounding error' % (n['l'], n['sp'], n['t']))
    for rid, lst, txt in (('C09.Q1', q1, 'no narrowing cast'), ('C09.Q2', q2, 'no narrow storage'), ('C09.Q3', q3, 'long double <cmath> overloads'),
                          ('C09.Q4', q4, 'exact literals'), ('C09.Q5', q5, 'no integer division feeding floating point')):
        if rid in skip:
            continue
        ctx.ob(rid, key, not lst, where, '; '.join(lst[:3]) + (' (+%d more)' % (len(lst) - 3) if len(lst) > 3 else ''),
               sample='%s: %s' % (key, txt), nontrivial=(rid != 'C09.Q5'))


def run(ctx, prog):
    ctx.rule('C09.Q1', 'no implicit or explicit floating cast from long double to double/float in any function reachable from an evaluator (long double instantiation)')
    ctx.rule('C09.Q2', 'no local, parameter or return of type double/float in those functions')
    ctx.rule('C09.Q3', 'every <cmath> call resolves to the long double overload')
    ctx.rule('C09.Q4', 'every double/float literal taking part in an evaluator is exactly representable (clang APFloat exactness of the source spelling)')
    ctx.rule('C09.Q5', 'no integer/integer division whose result is converted to floating point unless both operands are literals and the division is exact; no std::accumulate / inner_product over floating-point elements with an integer accumulator')
    ctx.rule('C09.Q7', 'no evaluator, after its helpers are inlined, takes log() of a value produced by exp(): the composition loses the range and, near the limits, the digits of the working precision')
    ctx.rule('C09.Q6', 'pi, PI and twopi of the long double instantiation are initialised through long double overloads from exact arguments')
    ctx.explanation = ('Necessary conditions for "the long double interface is not silently limited to double accuracy": any Q-violation is a concrete site where a '
                       'long double result carries double rounding error for every input. Error bounds and NaN/Inf freedom quantify over run-time magnitudes and are not decided.')
    scalar = 'long double'
    fn, ents, other = cat.entries(prog, scalar)
    done = set()
    n = 0
    for cls, _, _ in ents:
        evs = evaluator_overrides(prog, cls, scalar)
        reach = reachable(prog, cls, [f for _, _, f in evs])
        for (q, sig), f in reach.items():
            if (q, sig) in done:
                continue
            done.add((q, sig))
            if f.scalar != scalar and '<long double' not in q:
                # a non-template helper reached from a long double evaluator
                pass
            n += 1
            key = '%s|%s' % (q.replace('MASA::', '').replace('<long double>', ''), sig.replace('long double', 'S'))
            # a "not provided" stub of the base class reached through an arity guard: its -1.33 is a sentinel, not a formula operand
            is_stub = f.get('rec') == cat.BASE % scalar and f.n.startswith('eval_')
            check_function(ctx, f, key, skip=('C09.Q4',) if is_stub else ())
    ctx.floor('functions_reachable_from_evaluators<long double>', n, 270)
    # ---- Q7: range compression.  After forward substitution (helpers inlined) no evaluator takes the logarithm of a value that
    # was produced by exp(): where exp() under- or overflows the logarithm returns -inf/+inf although the composition is a
    # representable finite number (and digits are lost in the subnormal range).
    from .. import terms
    n7 = 0
    for cls, _, _ in ents:
        for name, sig, f in evaluator_overrides(prog, cls, scalar):
            E = terms.Evaluator(prog, dyn_class=cls, scalar=scalar)
            try:
                outs = E.run(f)
            except RecursionError:
                continue
            hits = []
            for o in outs:
                if o.ret is None:
                    continue
                for st in terms.subterms(o.ret):
                    if st[0] == 'call' and st[1] in ('log', 'log10', 'log2') and st[2]:
                        a = st[2][0]
                        facs = a[1] if a[0] == 'mul' else (a,)
                        if any(x[0] == 'call' and x[1] in ('exp', 'exp2') for x in facs):
                            hits.append(terms.fmt(st)[:70])
            n7 += 1
            ctx.ob('C09.Q7', '%s::%s|%s' % (cat.short(cls), name, sig.replace(scalar, 'S')), not hits, f.where,
                   'takes the logarithm of a value produced by exp(): `%s` is -inf/inf wherever the exponential leaves the range of %s, although the result is representable' % (
                       hits[0] if hits else '', scalar), sample='%s::%s: no log(exp(..)) composition' % (cat.short(cls), name), nontrivial=False)
    ctx.floor('evaluators_scanned_for_range_compression', n7, 150)
    # API templates (every MASA:: entry point of the long double instantiation) and what they reach: registry methods,
    # the parameter store (set_var / get_var / ...), helpers
    na = 0
    roots = [f for f in prog.functions if f.q.startswith('MASA::') and not f.get('rec') and f.scalar == scalar]
    for f in roots:
        if f.q.startswith('MASA::masa_eval_'):
            na += 1
    for (q, sig), f in reachable(prog, None, roots).items():
        if (q, sig) in done:
            continue
        done.add((q, sig))
        if f.scalar != scalar and '<long double' not in q:
            continue        # non-template code shared by both precisions (string helpers, masa_exit)
        # literals of the API layer are sentinels and markers (-1.33, -12345.67, -20), not operands of a formula: Q4 is not applied
        check_function(ctx, f, 'api:%s|%s' % (q.replace('MASA::', '').replace('<long double>', ''), sig.replace('long double', 'S')), skip=('C09.Q4',))
    ctx.floor('api_templates<long double>', na, 117)
    # Q6
    consts = [(q, v) for q, v in prog.vars.items() if q.split('::')[-1] in ('pi', 'PI', 'twopi') and 'long double' in q]
    ctx.floor('scalar_constants<long double>', len(consts), 3)
    for q, v in consts:
        bad = []
        if v.get('init') is None:
            bad.append('no initialiser visible')
        else:
            for n_ in walk(v['init']):
                if n_.get('k') == 'call' and n_.get('n') in MATHS and 'long double' not in n_.get('sig', ''):
                    bad.append('%s resolves to `%s`' % (n_['n'], n_['sig']))
                if n_.get('k') == 'float' and not n_.get('exact'):
                    bad.append('inexact literal %s' % n_['sp'])
                if n_.get('k') == 'cast' and n_['ck'] == 'FloatingCast' and n_.get('from') in ('double', 'float'):
                    bad.append('value computed in %s then widened' % n_['from'])
        ctx.ob('C09.Q6', q, not bad, v.get('l', ''), '; '.join(bad), sample='%s = %s' % (q.split('::')[-1], show(v['init'])[:40] if v.get('init') else '?'))
    # positive self-test: the rule machinery must fire on a known-bad snippet
    fake_body = {'k': 'block', 's': [{'k': 'decl', 'vars': [{'n': 'q', 'id': 0, 't': 'double', 'l': 'selftest:1:1', 'init': {
        'k': 'cast', 'ck': 'FloatingCast', 'imp': 1, 'from': 'long double', 't': 'double', 'l': 'selftest:1:5',
        'e': {'k': 'float', 'sp': '0.1', 'v': '0.1', 'exact': 0, 't': 'double', 'l': 'selftest:1:9'}}}]}]}
    from ..report import Ctx

    class F:
        params = []
        ret = 'long double'
        where = 'selftest'
        body = fake_body
    probe = Ctx('C09-selftest', ctx.tier)
    check_function(probe, F, 'selftest')
    fired = set(v['rule'] for v in probe.violations)
    ctx.require({'C09.Q1', 'C09.Q2', 'C09.Q4'} <= fired, 'self-test: precision rules did not fire on the seeded positive example (%s)' % sorted(fired))
    ctx.selftests.append('positive example (double local, narrowing cast, inexact literal) fired rules %s' % sorted(fired))
