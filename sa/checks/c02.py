"""C02 - Euler family: sources equal the residual of the inviscid conservation laws on the exact fields."""
from .. import residual as rs, poly
from .. import catalogue as cat
from ..report import AnalysisBroken

LEVEL = 'proof'

CART = [('euler_1d', ['x'], None, {}), ('euler_2d', ['x', 'y'], None, {}), ('euler_3d', ['x', 'y', 'z'], None, {}),
        ('euler_transient_1d', ['x'], 't', {}),
        ('euler_transient_2d', ['x', 'y'], 't', {'rho_u': 'u', 'rho_v': 'v', 'rho_e': 'e'}),
        ('euler_transient_3d', ['x', 'y', 'z'], 't', {'rho_u': 'u', 'rho_v': 'v', 'rho_w': 'w', 'rho_e': 'e'})]
AXI = [('axi_euler', None, {}), ('axi_euler_transient', 't', {'rho_u': 'u', 'rho_w': 'w', 'rho_e': 'e'})]


def check_class(ctx, prog, pid, short, coords, fieldnames, resid_fn, names):
    polys = {}
    n = 0
    for scalar in cat.SCALARS:
        cls = 'MASA::%s<%s>' % (short, scalar)
        ctx.require(cls in prog.records, 'catalogue class %s not found' % cls)
        try:
            F, ffn = rs.fields(prog, cls, scalar, fieldnames, coords)
            Qs = {}
            for eq in names:
                Q, fn = rs.evaluator_poly(prog, cls, scalar, 'eval_q_' + names[eq], coords)
                ctx.require(Q is not None, '%s has no eval_q_%s(%s)' % (short, names[eq], ','.join(coords)))
                Qs[eq] = (Q, fn)
        except rs.Inconclusive as ex:
            raise AnalysisBroken(str(ex))
        polys[scalar] = (F, {k: v[0] for k, v in Qs.items()})
        if scalar == 'double':
            R = resid_fn(F)
            for eq, (Q, fn) in Qs.items():
                n += 1
                rs.compare(ctx, pid + '.RES', '%s|%s' % (short, eq), Q, R[eq], fn.where, '%s::eval_q_%s' % (short, names[eq]))
    same = polys['double'] == polys['long double']
    ctx.ob(pid + '.UNI', short, same, '', '%s: double and long double instantiations are different expressions' % short, sample='%s<double> == %s<long double>' % (short, short))
    return n


def run(ctx, prog):
    ctx.rule('C02.RES', 'normal form of each mass / momentum / total-energy source equals that of d(rho)/dt + div(rho u), d(rho u)/dt + div(rho u u) + grad p, '
             'd(rho e_t)/dt + div(rho u H) (cylindrical divergence for the axisymmetric pair) applied to eval_exact_rho/u/v/w/p; e_t = p/((Gamma-1) rho) + |u|^2/2, H = e_t + p/rho')
    ctx.rule('C02.UNI', 'the long double instantiation has the same normal forms as the double one')
    ctx.explanation = ('Equality of canonical polynomial normal forms of source and residual: a proof for all parameters and points for all 8 solutions x all equations. '
                       'The exact fields are taken from the code (the property is stated relative to the fields the API returns).')
    n = 0
    for short, space, t, ren in CART:
        coords = space + ([t] if t else [])
        eqs = ['rho'] + ['rho_' + c for c in 'uvw'[:len(space)]] + ['rho_e']
        names = {e: ren.get(e, e) for e in eqs}
        n += check_class(ctx, prog, 'C02', short, coords, ['rho', 'p'] + ['u', 'v', 'w'][:len(space)],
                         lambda F, space=space, t=t: rs.euler_residuals(F, space, t), names)
    for short, t, ren in AXI:
        coords = ['r', 'z'] + ([t] if t else [])
        eqs = ['rho', 'rho_u', 'rho_w', 'rho_e']
        names = {e: ren.get(e, e) for e in eqs}
        n += check_class(ctx, prog, 'C02', short, coords, ['rho', 'p', 'u', 'w'], lambda F, t=t: rs.axi_euler_residuals(F, t), names)
    ctx.floor('euler_source_terms', n, 32)
    ctx.trusted = ['clang 14 front end', 'tools/masa-ir', 'sa/terms.py', 'sa/poly.py', 'euler_residuals / axi_euler_residuals in sa/residual.py (15 lines)']
