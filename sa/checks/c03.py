"""C03 - Navier-Stokes family: sources equal the full viscous, heat-conducting residual."""
from fractions import Fraction
from .. import residual as rs, poly, terms
from .. import catalogue as cat
from ..report import AnalysisBroken
from .c02 import check_class

LEVEL = 'other'
S = poly.sym
add, mul, d = poly.add, poly.mul, poly.diff
PRIMS = ('rho', 'u', 'v', 'w', 'T')
COORDS = ['x', 'y', 'z', 't']


def powerlaw_oracle():
    """residual of the compressible NS equations with mu = mu_r (T/T_r)^beta, lambda = lambda_r mu/mu_r, kappa = kappa_r mu/mu_r,
    p = rho R T, e = R T/(gamma-1) + |u|^2/2, over jet variables rho,u,v,w,T"""
    rho, u, v, w, T = [S(n) for n in PRIMS]
    R_, gam = S('R'), S('gamma')
    P = mul(mul(rho, R_), T)
    b = mul(T, S('T_r', -1))
    mu = mul(S('mu_r'), poly.atom(('fn', 'pow', (poly.canon(b), poly.canon(S('beta'))))))
    lam = mul(mul(S('lambda_r'), S('mu_r', -1)), mu)
    kap = mul(mul(S('kappa_r'), S('mu_r', -1)), mu)
    vel = [u, v, w]
    sp = ['x', 'y', 'z']
    ke = {}
    for ui in vel:
        ke = add(ke, mul(ui, ui))
    e = add(mul(mul(R_, T), poly.inverse(add(gam, poly.const(-1)))), poly.scale(ke, Fraction(1, 2)))
    divu = {}
    for ui, xi in zip(vel, sp):
        divu = add(divu, d(ui, xi))
    tau = [[add(mul(mu, add(d(vel[i], sp[j]), d(vel[j], sp[i]))), mul(lam, divu) if i == j else {}) for j in range(3)] for i in range(3)]
    R = {}
    m = d(rho, 't')
    for ui, xi in zip(vel, sp):
        m = add(m, d(mul(rho, ui), xi))
    R['rho'] = m
    for i in range(3):
        r = d(mul(rho, vel[i]), 't')
        for j in range(3):
            r = add(r, d(mul(mul(rho, vel[i]), vel[j]), sp[j]))
        r = add(r, d(P, sp[i]))
        for j in range(3):
            r = add(r, d(tau[i][j], sp[j]), -1)
        R['rho_' + 'uvw'[i]] = r
    en = d(mul(rho, e), 't')
    for j in range(3):
        en = add(en, d(mul(mul(rho, vel[j]), e), sp[j]))
        en = add(en, d(mul(P, vel[j]), sp[j]))
        en = add(en, d(mul(kap, d(T, sp[j])), sp[j]), -1)
        work = {}
        for i in range(3):
            work = add(work, mul(tau[i][j], vel[i]))
        en = add(en, d(work, sp[j]), -1)
    R['rho_e'] = en
    return R, {'rho': rho, 'u': u, 'v': v, 'w': w, 't': T, 'p': P}


def jet_hook(e, opath, n, args):
    if opath in PRIMS and (n == 'operator()' or n.startswith('_')):
        a = args()
        if a != tuple(('sym', c) for c in COORDS):
            return None
        return ('sym', opath + ('' if n == 'operator()' else n))
    return None


def run(ctx, prog):
    ctx.rule('C03.RES', 'normal form of each source equals that of the compressible Navier-Stokes residual (Newtonian stress with Stokes hypothesis, Fourier flux, T = p/(rho R)) on the exact fields; '
             'cylindrical operators for the axisymmetric pair')
    ctx.rule('C03.ORACLE', 'oracle cross-check: the cylindrical stress divergence used as oracle equals mu (lap u + 1/3 grad div u) on the same fields')
    ctx.rule('C03.PL-ASM', 'power-law solution: with the primitive fields as jet variables (rho, rho_x, ... symbols with d/dx rho_s = rho_{s+x}) each Q_* assembled by the code equals the residual with '
             'mu = mu_r (T/T_r)^beta, lambda = lambda_r mu/mu_r, kappa = kappa_r mu/mu_r, p = rho R T')
    ctx.rule('C03.PL-PRIM', 'power-law solution: each of primitive::_t,_x,_y,_z,_xx,_xy,_xz,_yy,_yz,_zz equals the table derivative of primitive::operator() (all amplitude, frequency and phase parameters symbolic)')
    ctx.rule('C03.PL-EXACT', 'power-law solution: eval_exact_rho/u/v/w/t return the primitives and eval_exact_p returns rho R T')
    ctx.rule('C03.UNI', 'the long double instantiation has the same normal forms as the double one')
    ctx.explanation = ('Equality of canonical normal forms of source and residual operator: proofs for navierstokes_2d/3d_compressible and, through jet variables plus the 10 primitive '
                       'derivative members, for the power-law solution with every one of its parameters symbolic. For the axisymmetric pair the comparison is a definite DIFFERENT '
                       '(known findings): the viscous parts of the momentum and energy sources are not the cylindrical Navier-Stokes residual.')
    n = 0
    for short, space in (('navierstokes_2d_compressible', ['x', 'y']), ('navierstokes_3d_compressible', ['x', 'y', 'z'])):
        eqs = ['rho'] + ['rho_' + c for c in 'uvw'[:len(space)]] + ['rho_e']
        n += check_class(ctx, prog, 'C03', short, space, ['rho', 'p'] + ['u', 'v', 'w'][:len(space)],
                         lambda F, space=space: rs.ns_residuals(F, space, None), {e: e for e in eqs})
    for short, t, ren in (('axi_cns', None, {}), ('axi_cns_transient', 't', {'rho_u': 'u', 'rho_w': 'w', 'rho_e': 'e'})):
        coords = ['r', 'z'] + ([t] if t else [])
        names = {e: ren.get(e, e) for e in ['rho', 'rho_u', 'rho_w', 'rho_e']}
        n += check_class(ctx, prog, 'C03', short, coords, ['rho', 'p', 'u', 'w'], lambda F, t=t: rs.axi_ns_residuals(F, t), names)
        F, _ = rs.fields(prog, 'MASA::%s<double>' % short, 'double', ['rho', 'p', 'u', 'w'], coords)
        ctx.ob('C03.ORACLE', short, rs.axi_stress_selfcheck(F), 'sa/residual.py', 'the cylindrical stress operator of the oracle is inconsistent with the vector-Laplacian identity',
               sample='div tau == mu (lap u + grad div u / 3) on the fields of %s' % short)
    ctx.floor('cartesian_and_axisymmetric_source_terms', n, 4 + 5 + 4 + 4)
    # ---- power law
    results = {}
    for scalar in cat.SCALARS:
        cls = 'MASA::navierstokes_4d_compressible_powerlaw<%s>' % scalar
        ctx.require(cls in prog.records, '%s not in IR' % cls)
        poly.JETS = set(PRIMS)
        poly.JET_COORDS = tuple(COORDS)
        try:
            R, Fx = powerlaw_oracle()
            Q = {}
            for eq in ['rho', 'rho_u', 'rho_v', 'rho_w', 'rho_e']:
                Q[eq], fn = rs.evaluator_poly(prog, cls, scalar, 'eval_q_' + eq, COORDS, hook=jet_hook)
                ctx.require(Q[eq] is not None, 'power-law eval_q_%s missing' % eq)
                if scalar == 'double':
                    rs.compare(ctx, 'C03.PL-ASM', 'powerlaw|' + eq, Q[eq], R[eq], fn.where, 'navierstokes_4d_compressible_powerlaw::eval_q_' + eq)
            for f, want in Fx.items():
                E, fn = rs.evaluator_poly(prog, cls, scalar, 'eval_exact_' + f, COORDS, hook=jet_hook)
                ctx.require(E is not None, 'power-law eval_exact_%s missing' % f)
                Q['exact_' + f] = E
                if scalar == 'double':
                    rs.compare(ctx, 'C03.PL-EXACT', 'powerlaw|exact_' + f, E, want, fn.where, 'navierstokes_4d_compressible_powerlaw::eval_exact_' + f)
        except rs.Inconclusive as ex:
            raise AnalysisBroken(str(ex))
        finally:
            poly.JETS = set()
            poly.JET_COORDS = ()
        prim = 'MASA::nsctpl::primitive<%s>' % scalar

        def member_poly(name):
            f = [f for f in prog.functions if f.get('rec') == prim and f.n == name]
            if len(f) != 1:
                raise AnalysisBroken('%s::%s: %d definitions' % (prim, name, len(f)))
            E = terms.Evaluator(prog, scalar=scalar)
            outs = E.run(f[0], arg_names=COORDS)
            if len(outs) != 1 or outs[0].ret is None or terms.has_unk(outs[0].ret):
                raise AnalysisBroken('%s::%s not a single expression' % (prim, name))
            return poly.from_term(outs[0].ret), f[0]
        base, bf = member_poly('operator()')
        Q['prim'] = base
        for suf in ['t', 'x', 'y', 'z', 'xx', 'xy', 'xz', 'yy', 'yz', 'zz']:
            got, gf = member_poly('_' + suf)
            Q['prim_' + suf] = got
            if scalar == 'double':
                want = base
                for c in suf:
                    want = d(want, c)
                rs.compare(ctx, 'C03.PL-PRIM', 'primitive|_' + suf, got, want, gf.where, 'nsctpl::primitive::_' + suf)
        results[scalar] = Q
    ctx.ob('C03.UNI', 'powerlaw', results['double'] == results['long double'], '', 'power-law: double and long double instantiations are different expressions', sample='22 members identical in both instantiations')
    ctx.trusted = ['clang 14 front end', 'tools/masa-ir', 'sa/terms.py', 'sa/poly.py', 'ns_residuals / axi_ns_residuals (sa/residual.py) and powerlaw_oracle (this file)']
