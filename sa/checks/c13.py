"""C13 - solution-name normalisation (DESIGN 2, C13)."""
from .. import catalogue as cat
from ..ast import strip, flat_stmts, calls, is_param, is_local, int_value, str_value, show, nodes
from ..ir import walk
from ..report import AnalysisBroken
from .. import ownership as own

LEVEL = 'other'
STR = 'std::basic_string<char'


def offset_of(e, lid):
    """e == local(lid) + c  ->  c (int), else None"""
    e = strip(e, casts=True)
    if is_local(e, lid):
        return 0
    if e.get('k') == 'bin' and e['op'] in ('+', '-'):
        a, b = strip(e['a'], casts=True), strip(e['b'], casts=True)
        if is_local(a, lid) and int_value(b) is not None:
            return int_value(b) if e['op'] == '+' else -int_value(b)
        if e['op'] == '+' and is_local(b, lid) and int_value(a) is not None:
            return int_value(a)
    return None


def char_of(a, binding):
    a = strip(a, casts=True)
    if a.get('k') == 'char':
        return chr(a['v'])
    if a.get('k') == 'param' and a.get('i') in binding:
        return binding[a['i']]
    lit = str_value(a)
    return lit if lit is not None and len(lit) == 1 else None


def deletion_loop(f, prog=None, binding=None, depth=0):
    """classify the body of remove_line/remove_whitespace.
    returns (verdict, what, literal) verdict True/False/None(unknown idiom)"""
    binding = binding or {}
    st = flat_stmts(f.body)
    # forwarding to a helper of the repository: helper(str, 'c')
    if len(st) == 1 and prog is not None and depth < 3:
        e = strip(st[0], casts=True)
        if e.get('k') == 'return' and e.get('e') is not None:
            e = strip(e['e'], casts=True)
        if e.get('k') == 'call' and e.get('inrepo') and e.get('args') and is_param(e['args'][0], 0):
            g = prog.by_q.get(e['q'], [])
            if len(g) == 1:
                b2 = {}
                for i, a in enumerate(e['args'][1:], 1):
                    ch = char_of(a, binding)
                    if ch is not None:
                        b2[i] = ch
                v, what, lit = deletion_loop(g[0], prog, b2, depth + 1)
                return v, 'forwards to %s: %s' % (g[0].n, what), lit
    # idiom (b): erase-remove on the string parameter: str.erase(std::remove(str.begin(), str.end(), c), str.end())
    for c in calls(f.body, name='erase'):
        inner = [x for x in calls(c) if x.get('n') in ('remove',)]
        if inner and is_param(c.get('obj'), 0) and len(c['args']) == 2 and len(inner[0]['args']) == 3:
            def range_call(x, nm):
                x = strip(x, casts=True)
                while x.get('k') == 'construct' and len(x['args']) == 1:
                    x = strip(x['args'][0], casts=True)
                return x.get('k') == 'call' and x.get('n') == nm and is_param(x.get('obj'), 0)
            whole = range_call(inner[0]['args'][0], 'begin') and range_call(inner[0]['args'][1], 'end') and range_call(c['args'][1], 'end') and \
                any(x is inner[0] for x in walk(c['args'][0]))
            ch = char_of(inner[0]['args'][2], binding)
            if not whole:
                return False, 'erase-remove does not cover [begin, end) of the string', ch
            return True, 'erase-remove idiom', ch
    # a deletion driven by a character class (isspace, isblank, ispunct, ...) removes more than one character value
    CLASSES = ('isspace', 'isblank', 'ispunct', 'isalpha', 'isalnum', 'isdigit', 'iscntrl', 'isgraph', 'isprint', 'isupper', 'islower')
    cls_calls = [c for c in calls(f.body) if c.get('n') in CLASSES]
    mutates = [c for c in calls(f.body) if c.get('n') in ('erase', 'replace', 'remove_if', 'remove_copy_if') ]
    if cls_calls and mutates:
        return False, 'characters are deleted by the class test %s(): every character of that class is removed, not one character value' % cls_calls[0]['n'], '<%s>' % cls_calls[0]['n']
    # idiom (a): find / erase loop
    if len(st) >= 2 and st[0].get('k') == 'decl' and len(st[0]['vars']) == 1 and st[1].get('k') in ('while',):
        v = st[0]['vars'][0]
        lid = v['id']
        first = strip(v['init'], casts=True) if v.get('init') else {}
        if not (first.get('k') == 'call' and first.get('n') == 'find' and is_param(first.get('obj'), 0)):
            return None, 'first statement is not pos = str.find(...)', None
        lit = str_value(first['args'][0])
        start0 = int_value(first['args'][1]) if len(first['args']) > 1 else 0
        if lit is None or len(lit) != 1 or start0 != 0:
            return None, 'first search is not find("<one char>") from index 0', lit
        w = st[1]
        c = strip(w['c'], casts=True)
        ok_cond = c.get('k') == 'bin' and c['op'] == '!=' and is_local(c['a'], lid, casts=True) and \
            strip(c['b'], casts=True).get('q', '').endswith('::npos')
        if not ok_cond:
            return None, 'loop condition is not pos != npos', lit
        body = flat_stmts(w['body'])
        erased = None
        resume = None
        for s in body:
            e = strip(s, casts=True)
            if e.get('k') == 'call' and e.get('n') in ('replace', 'erase') and is_param(e.get('obj'), 0):
                off = offset_of(e['args'][0], lid)
                cnt = int_value(e['args'][1]) if len(e['args']) > 1 else None
                repl = str_value(e['args'][2]) if e['n'] == 'replace' and len(e['args']) > 2 else ''
                if off != 0 or cnt != 1 or repl != '':
                    return False, 'removes %s character(s) at pos%+d replaced by %r: not exactly the found character' % (cnt, off or 0, repl), lit
                erased = e
            elif e.get('k') == 'bin' and e['op'] == '=' and is_local(e['a'], lid):
                r = strip(e['b'], casts=True)
                if r.get('k') == 'call' and r.get('n') == 'find' and is_param(r.get('obj'), 0):
                    lit2 = str_value(r['args'][0])
                    if lit2 != lit:
                        return False, 'loop searches %r first and %r afterwards' % (lit, lit2), lit
                    resume = offset_of(r['args'][1], lid) if len(r['args']) > 1 else None
                    if len(r['args']) > 1 and strip(r['args'][1], casts=True).get('k') == 'int':
                        resume = -10 ** 6 if int_value(r['args'][1]) == 0 else None
                    if resume is None:
                        return None, 'resume index `%s` is not pos + constant' % show(r['args'][1]), lit
                    resume_node = r
                else:
                    return None, 'position reassigned from `%s`' % show(e['b']), lit
            else:
                return None, 'unrecognised statement in deletion loop at %s' % e.get('l'), lit
        if erased is None or resume is None:
            return None, 'loop lacks the erase or the resuming find', lit
        if resume >= 1:
            return False, ('after erasing the character at pos the search resumes at pos%+d (%s): the character that moved into '
                           'pos is skipped, so one of two adjacent %r survives') % (resume, resume_node['l'], lit), lit
        return True, 'find/erase loop resuming at pos%+d' % resume if resume > -10 ** 5 else 'find/erase loop restarting at 0', lit
    return None, 'unrecognised deletion idiom', None


def run(ctx, prog):
    ctx.rule('C13.N1', 'masa_map applies uptolow, remove_line and remove_whitespace to one string object that starts as a copy of *input and is stored back to *input')
    ctx.rule('C13.N2', 'uptolow visits every index 0..length-1 and stores tolower of the same element')
    ctx.rule('C13.N3', 'in each deletion loop, after the character at index p is erased the next search resumes at an index <= p (accepted idioms enumerated; anything else is exit 2)')
    ctx.rule('C13.N4', 'the only characters removed are "-" (remove_line) and " " (remove_whitespace); the only case mapping is std::tolower per character')
    ctx.rule('C13.N5', 'init_mms uses the handle parameter verbatim as map key and compares candidates with the masa_map image of the name parameter; select_mms looks up its parameter verbatim')
    ctx.explanation = ('The normaliser is three small loops; its correctness for every string (runs of separators anywhere) is an index-offset fact about the deletion loop, '
                       'decided here for all inputs, whereas the suite tries a handful of spellings with isolated separators.')
    fm = prog.fn('MASA::masa_map')
    fm = [f for f in fm if len(f.params) == 1 and 'basic_string' in f.params[0]['t'] and f.params[0]['t'].endswith('*')]
    ctx.require(len(fm) == 1, 'MASA::masa_map(std::string*) not found')
    fm = fm[0]
    helpers = {}
    for n in ('uptolow', 'remove_line', 'remove_whitespace'):
        h = prog.fn('MASA::' + n)
        ctx.require(len(h) == 1, 'MASA::%s not found' % n)
        helpers[n] = h[0]
    # ---- N1: forward substitution of masa_map with the three helpers as uninterpreted string functions
    from .. import terms
    E = terms.Evaluator(prog)

    def hook(ev, e, n, obj, args_e, P, fr):
        if n in helpers and e.get('inrepo') and e.get('q', '').startswith('MASA::') and len(args_e) == 1:
            old = ev.E(args_e[0], P, fr)
            ev.assign(args_e[0], ('call', n, (old,)), P, fr, e.get('l'))
            return terms.num(0)
        return None
    E.call_hook = hook
    E.unroll_paths = True
    outs = [o for o in E.run(fm) if o.kind != 'exit']
    pn = fm.params[0]['n']
    probs = []
    if not outs:
        probs.append('no returning path')
    for o in outs:
        st_ = [e for e in o.events if e[0] == 'write-through' and e[1] == ('sym', pn)]
        if not st_:
            probs.append('a path returns without storing to *%s' % pn)
            continue
        v = st_[-1][3] if len(st_[-1]) > 3 else None
        if v is not None and v[0] == 'call' and v[1] == 'container:assign' and len(v[2]) == 2:
            v = v[2][1]
        applied = []
        while v is not None and v[0] == 'call' and v[1] in helpers and len(v[2]) == 1:
            applied.append(v[1])
            v = v[2][0]
        hidden = [e for e in o.events if e[0] in ('loop', 'branch') and any(x[0] in ('write-through', 'write', 'store') for k_, c_, sub in e[1][1] for x in sub)]
        if hidden:
            probs.append('the string is also modified inside a loop / helper at %s that is not one of the three normalisation steps' % hidden[0][2])
        elif v not in (('sym', pn + '*'), ('deref', ('sym', pn))):
            probs.append('the stored string derives from `%s`, not from the input' % (terms.fmt(v)[:50] if v else None))
        elif set(applied) != set(helpers):
            probs.append('the stored string is %s of the input: %s not applied' % (' of '.join(applied) or 'a plain copy', sorted(set(helpers) - set(applied))))
    ctx.ob('C13.N1', 'masa_map', not probs, fm.where, '; '.join(probs[:2]), sample='*in = remove_whitespace(remove_line(uptolow(*in)))')
    # ---- N2
    up = helpers['uptolow']
    ok, why = False, 'no index loop over the whole string'
    for lp in nodes(up.body, 'for'):
        init = lp.get('init')
        if not (init and init.get('k') == 'decl' and len(init['vars']) == 1 and int_value(init['vars'][0]['init']) == 0):
            why = 'loop does not start at index 0'
            continue
        iv = init['vars'][0]['id']
        c = strip(lp['c'], casts=True)
        bound = strip(c.get('b'), casts=True) if c.get('k') == 'bin' else {}
        if not (c.get('k') == 'bin' and c['op'] in ('!=', '<') and is_local(c['a'], iv, casts=True) and bound.get('k') == 'call' and
                bound.get('n') in ('length', 'size') and is_param(bound.get('obj'), 0)):
            why = 'loop bound is `%s`, expected i != str.length()' % show(lp['c'])
            continue
        inc = strip(lp['inc'], casts=True)
        if not (inc.get('k') == 'un' and inc['op'] == '++' and is_local(inc['e'], iv)):
            why = 'loop increment is not ++i'
            continue
        body = flat_stmts(lp['body'])
        if len(body) == 1 and body[0].get('k') == 'bin' and body[0]['op'] == '=':
            lhs = strip(body[0]['a'], casts=True)
            lhs_ok = lhs.get('k') == 'call' and lhs.get('n') == 'operator[]' and is_param(lhs['args'][0], 0) and is_local(lhs['args'][1], iv, casts=True)
            tl = [x for x in calls(body[0]['b']) if x.get('n') == 'tolower']
            rhs_ok = len(tl) == 1 and any(x.get('n') == 'operator[]' and is_param(x['args'][0], 0) and is_local(x['args'][1], iv, casts=True) for x in calls(tl[0]))
            other = [x for x in calls(body[0]['b']) if x.get('n') not in ('tolower', 'operator[]')]
            if lhs_ok and rhs_ok and not other:
                ok, why = True, ''
            else:
                why = 'loop body is `%s`, expected str[i] = tolower(str[i])' % show(body[0])
    recognised = ok or why != 'no index loop over the whole string'
    if not ok:
        tr = [c for c in calls(up.body) if c.get('n') == 'transform' and len(c.get('args', [])) == 4]
        if tr:
            recognised = True

            def rng(x, nm):
                x = strip(x, casts=True)
                while x.get('k') == 'construct' and len(x['args']) == 1:
                    x = strip(x['args'][0], casts=True)
                return x.get('k') == 'call' and x.get('n') == nm and is_param(x.get('obj'), 0)
            whole = rng(tr[0]['args'][0], 'begin') and rng(tr[0]['args'][1], 'end') and rng(tr[0]['args'][2], 'begin')
            fn_ = strip(tr[0]['args'][3], casts=True)
            lower = False
            if fn_.get('k') == 'fnref':
                if fn_['q'].split('::')[-1] == 'tolower':
                    lower = True
                else:
                    g = prog.by_q.get(fn_['q'], [])
                    if len(g) == 1 and len(g[0].params) == 1:
                        rets = [n_ for n_ in nodes(g[0].body, 'return')]
                        if len(rets) == 1 and len(flat_stmts(g[0].body)) == 1:
                            tl = [x for x in calls(rets[0]) if x.get('n') == 'tolower']
                            oth = [x for x in calls(rets[0]) if x.get('n') != 'tolower']
                            lower = len(tl) == 1 and not oth and any(is_param(strip(a_, casts=True), 0) for a_ in tl[0]['args'])
            ok = whole and lower
            why = 'std::transform does not apply tolower to [begin, end) of the string in place'
    ctx.ob('C13.N2', 'uptolow', ok if recognised else None, up.where, why if recognised else 'the case mapping is written in an idiom outside the recognised ones: not decided',
           sample='for i in [0,length): str[i]=tolower(str[i])')
    # ---- N3/N4
    want = {'remove_line': '-', 'remove_whitespace': ' '}
    for n in ('remove_line', 'remove_whitespace'):
        verdict, what, lit = deletion_loop(helpers[n], prog)
        ctx.ob('C13.N3', n, verdict, helpers[n].where, '%s: %s' % (n, what), sample='%s: %s' % (n, what))
        ctx.ob('C13.N4', n, (lit == want[n]) if (verdict is not None or lit is not None) else None, helpers[n].where, '%s deletes %r, expected %r' % (n, lit, want[n]), sample='%s deletes %r' % (n, lit))
    others = [c.get('n') for c in calls(up.body) if c.get('n') in ('toupper', 'erase', 'replace')]
    ctx.ob('C13.N4', 'uptolow-only-tolower', not others, up.where, 'uptolow also calls %s' % others, sample='only std::tolower', nontrivial=False)
    # ---- N5
    for scalar in cat.SCALARS:
        sc = 'ld' if scalar == 'long double' else 'd'
        im = [f for f in prog.functions if f.n == 'init_mms' and 'MasterMS<%s>' % scalar in f.get('rec', '')]
        ctx.require(len(im) == 1, 'init_mms<%s> not found' % scalar)
        im = im[0]
        # decided on the ownership simulation of init_mms (sa/ownership.py): one path per matching candidate
        res, info = own.check_init(prog, im, scalar)
        inc = bool(res['complete'])

        def verdict(problems):
            return (not problems) if not inc else (False if problems else None)
        ctx.ob('C13.N5', 'handle-verbatim|' + sc, verdict(res['key']), im.where, '; '.join(res['key'][:2]) or 'not decided: ' + '; '.join(res['complete'][:2]),
               sample='%d returning paths install under the unmodified handle parameter' % info['returning'])
        nm_v = verdict(res['name-match'])
        if nm_v is True and res['name-match-undecided']:
            nm_v = None
        ctx.ob('C13.N5', 'name-normalised|' + sc, nm_v, im.where, '; '.join(res['name-match'][:2]) or 'not decided: ' + '; '.join((res['name-match-undecided'] + res['complete'])[:2]),
               sample='each installed candidate is the one whose name equals masa_map(name parameter)')
        unmatched = res['one-install'] + res['fatal-registers'] + sorted(set(res['raw-name']))
        ctx.ob('C13.N5', 'no-match-is-fatal|' + sc, verdict(unmatched), im.where, '; '.join(unmatched[:2]) or 'not decided: ' + '; '.join(res['complete'][:2]),
               sample='the only paths that install nothing end in masa_exit; no terminating path installs anything')
        sm = [f for f in prog.functions if f.n == 'select_mms' and 'MasterMS<%s>' % scalar in f.get('rec', '')]
        ctx.require(len(sm) == 1, 'select_mms<%s> not found' % scalar)
        sp, ngood = own.check_select(prog, sm[0], scalar)
        ctx.ob('C13.N5', 'select-verbatim|' + sc, not sp, sm[0].where, 'select_mms: ' + '; '.join(sp[:2]), sample='_master_pointer = _master_map.find(my_name)->second')
