"""C13 - solution-name normalisation (DESIGN 2, C13)."""
from .. import catalogue as cat
from ..ast import strip, flat_stmts, calls, is_param, is_local, int_value, str_value, show, nodes
from ..ir import walk
from ..report import AnalysisBroken
from .. import ownership as own

LEVEL = 'other'
STR = 'std::basic_string<char'


def offset_of(e, lid):
    """e == local(lid) + c  ->  c (int), else None"""
    e = strip(e, casts=True)
    if is_local(e, lid):
        return 0
    if e.get('k') == 'bin' and e['op'] in ('+', '-'):
        a, b = strip(e['a'], casts=True), strip(e['b'], casts=True)
        if is_local(a, lid) and int_value(b) is not None:
            return int_value(b) if e['op'] == '+' else -int_value(b)
        if e['op'] == '+' and is_local(b, lid) and int_value(a) is not None:
            return int_value(a)
    return None


def deletion_loop(f):
    """classify the body of remove_line/remove_whitespace.
    returns (verdict, what, literal) verdict True/False/None(unknown idiom)"""
    st = flat_stmts(f.body)
    # idiom (b): erase-remove
    for c in calls(f.body, name='erase'):
        inner = [x for x in calls(c) if x.get('n') in ('remove', 'remove_if')]
        if inner:
            ch = None
            for a in inner[0]['args']:
                a = strip(a, casts=True)
                if a.get('k') == 'char':
                    ch = chr(a['v'])
            return True, 'erase-remove idiom', ch
    # idiom (a): find / erase loop
    if len(st) >= 2 and st[0].get('k') == 'decl' and len(st[0]['vars']) == 1 and st[1].get('k') in ('while',):
        v = st[0]['vars'][0]
        lid = v['id']
        first = strip(v['init'], casts=True) if v.get('init') else {}
        if not (first.get('k') == 'call' and first.get('n') == 'find' and is_param(first.get('obj'), 0)):
            return None, 'first statement is not pos = str.find(...)', None
        lit = str_value(first['args'][0])
        start0 = int_value(first['args'][1]) if len(first['args']) > 1 else 0
        if lit is None or len(lit) != 1 or start0 != 0:
            return None, 'first search is not find("<one char>") from index 0', lit
        w = st[1]
        c = strip(w['c'], casts=True)
        ok_cond = c.get('k') == 'bin' and c['op'] == '!=' and is_local(c['a'], lid, casts=True) and \
            strip(c['b'], casts=True).get('q', '').endswith('::npos')
        if not ok_cond:
            return None, 'loop condition is not pos != npos', lit
        body = flat_stmts(w['body'])
        erased = None
        resume = None
        for s in body:
            e = strip(s, casts=True)
            if e.get('k') == 'call' and e.get('n') in ('replace', 'erase') and is_param(e.get('obj'), 0):
                off = offset_of(e['args'][0], lid)
                cnt = int_value(e['args'][1]) if len(e['args']) > 1 else None
                repl = str_value(e['args'][2]) if e['n'] == 'replace' and len(e['args']) > 2 else ''
                if off != 0 or cnt != 1 or repl != '':
                    return False, 'removes %s character(s) at pos%+d replaced by %r: not exactly the found character' % (cnt, off or 0, repl), lit
                erased = e
            elif e.get('k') == 'bin' and e['op'] == '=' and is_local(e['a'], lid):
                r = strip(e['b'], casts=True)
                if r.get('k') == 'call' and r.get('n') == 'find' and is_param(r.get('obj'), 0):
                    lit2 = str_value(r['args'][0])
                    if lit2 != lit:
                        return False, 'loop searches %r first and %r afterwards' % (lit, lit2), lit
                    resume = offset_of(r['args'][1], lid) if len(r['args']) > 1 else None
                    if len(r['args']) > 1 and strip(r['args'][1], casts=True).get('k') == 'int':
                        resume = -10 ** 6 if int_value(r['args'][1]) == 0 else None
                    if resume is None:
                        return None, 'resume index `%s` is not pos + constant' % show(r['args'][1]), lit
                    resume_node = r
                else:
                    return None, 'position reassigned from `%s`' % show(e['b']), lit
            else:
                return None, 'unrecognised statement in deletion loop at %s' % e.get('l'), lit
        if erased is None or resume is None:
            return None, 'loop lacks the erase or the resuming find', lit
        if resume >= 1:
            return False, ('after erasing the character at pos the search resumes at pos%+d (%s): the character that moved into '
                           'pos is skipped, so one of two adjacent %r survives') % (resume, resume_node['l'], lit), lit
        return True, 'find/erase loop resuming at pos%+d' % resume if resume > -10 ** 5 else 'find/erase loop restarting at 0', lit
    return None, 'unrecognised deletion idiom', None


def run(ctx, prog):
    ctx.rule('C13.N1', 'masa_map applies uptolow, remove_line and remove_whitespace to one string object that starts as a copy of *input and is stored back to *input')
    ctx.rule('C13.N2', 'uptolow visits every index 0..length-1 and stores tolower of the same element')
    ctx.rule('C13.N3', 'in each deletion loop, after the character at index p is erased the next search resumes at an index <= p (accepted idioms enumerated; anything else is exit 2)')
    ctx.rule('C13.N4', 'the only characters removed are "-" (remove_line) and " " (remove_whitespace); the only case mapping is std::tolower per character')
    ctx.rule('C13.N5', 'init_mms uses the handle parameter verbatim as map key and compares candidates with the masa_map image of the name parameter; select_mms looks up its parameter verbatim')
    ctx.explanation = ('The normaliser is three small loops; its correctness for every string (runs of separators anywhere) is an index-offset fact about the deletion loop, '
                       'decided here for all inputs, whereas the suite tries a handful of spellings with isolated separators.')
    fm = prog.fn('MASA::masa_map')
    fm = [f for f in fm if len(f.params) == 1 and 'basic_string' in f.params[0]['t'] and f.params[0]['t'].endswith('*')]
    ctx.require(len(fm) == 1, 'MASA::masa_map(std::string*) not found')
    fm = fm[0]
    helpers = {}
    for n in ('uptolow', 'remove_line', 'remove_whitespace'):
        h = prog.fn('MASA::' + n)
        ctx.require(len(h) == 1, 'MASA::%s not found' % n)
        helpers[n] = h[0]
    # ---- N1
    st = flat_stmts(fm.body)
    target = None  # ('local', id) or ('param',)
    applied = []
    copied_in = stored_back = False
    for s in st:
        e = strip(s, casts=True)
        if e.get('k') == 'decl':
            for v in e['vars']:
                if STR in v['t']:
                    target = v['id']
                    if v.get('init') is not None:
                        i = strip(v['init'], casts=True)
                        i = strip(i['args'][0], casts=True) if i.get('k') == 'construct' and i['args'] else i
                        if i.get('k') == 'un' and i['op'] == '*' and is_param(i['e'], 0):
                            copied_in = True
        elif e.get('k') == 'call' and e.get('n') == 'operator=' and e.get('opcall'):
            l, r = strip(e['args'][0], casts=True), strip(e['args'][1], casts=True)
            if is_local(l, target) and r.get('k') == 'un' and r['op'] == '*' and is_param(r['e'], 0) and not applied:
                copied_in = True
            if l.get('k') == 'un' and l['op'] == '*' and is_param(l['e'], 0) and is_local(r, target):
                stored_back = len(applied) == 3 or stored_back
        elif e.get('k') == 'call' and e.get('n') in helpers and e.get('q', '').startswith('MASA::'):
            a = strip(e['args'][0], casts=True)
            if is_local(a, target) and copied_in:
                applied.append(e['n'])
            elif a.get('k') == 'un' and a['op'] == '*' and is_param(a['e'], 0):
                applied.append(e['n'])
                copied_in = stored_back = True
    ok = set(applied) == set(helpers) and copied_in and stored_back
    ctx.ob('C13.N1', 'masa_map', ok, fm.where, 'pipeline applies %s (copy-in=%s, store-back after all three=%s)' % (applied, copied_in, stored_back),
           sample='temp=*in; %s; *in=temp' % ', '.join(applied))
    # ---- N2
    up = helpers['uptolow']
    ok, why = False, 'no index loop over the whole string'
    for lp in nodes(up.body, 'for'):
        init = lp.get('init')
        if not (init and init.get('k') == 'decl' and len(init['vars']) == 1 and int_value(init['vars'][0]['init']) == 0):
            why = 'loop does not start at index 0'
            continue
        iv = init['vars'][0]['id']
        c = strip(lp['c'], casts=True)
        bound = strip(c.get('b'), casts=True) if c.get('k') == 'bin' else {}
        if not (c.get('k') == 'bin' and c['op'] in ('!=', '<') and is_local(c['a'], iv, casts=True) and bound.get('k') == 'call' and
                bound.get('n') in ('length', 'size') and is_param(bound.get('obj'), 0)):
            why = 'loop bound is `%s`, expected i != str.length()' % show(lp['c'])
            continue
        inc = strip(lp['inc'], casts=True)
        if not (inc.get('k') == 'un' and inc['op'] == '++' and is_local(inc['e'], iv)):
            why = 'loop increment is not ++i'
            continue
        body = flat_stmts(lp['body'])
        if len(body) == 1 and body[0].get('k') == 'bin' and body[0]['op'] == '=':
            lhs = strip(body[0]['a'], casts=True)
            lhs_ok = lhs.get('k') == 'call' and lhs.get('n') == 'operator[]' and is_param(lhs['args'][0], 0) and is_local(lhs['args'][1], iv, casts=True)
            tl = [x for x in calls(body[0]['b']) if x.get('n') == 'tolower']
            rhs_ok = len(tl) == 1 and any(x.get('n') == 'operator[]' and is_param(x['args'][0], 0) and is_local(x['args'][1], iv, casts=True) for x in calls(tl[0]))
            other = [x for x in calls(body[0]['b']) if x.get('n') not in ('tolower', 'operator[]')]
            if lhs_ok and rhs_ok and not other:
                ok, why = True, ''
            else:
                why = 'loop body is `%s`, expected str[i] = tolower(str[i])' % show(body[0])
    if not ok:
        tr = [c for c in calls(up.body) if c.get('n') == 'transform']
        if tr:
            ok = any(x.get('n') == 'tolower' or 'tolower' in str(x.get('q')) for x in walk(tr[0]))
    ctx.ob('C13.N2', 'uptolow', ok, up.where, why, sample='for i in [0,length): str[i]=tolower(str[i])')
    # ---- N3/N4
    want = {'remove_line': '-', 'remove_whitespace': ' '}
    for n in ('remove_line', 'remove_whitespace'):
        verdict, what, lit = deletion_loop(helpers[n])
        if verdict is None:
            raise AnalysisBroken('%s: deletion idiom not recognised (%s)' % (n, what))
        ctx.ob('C13.N3', n, verdict, helpers[n].where, '%s: %s' % (n, what), sample='%s: %s' % (n, what))
        ctx.ob('C13.N4', n, lit == want[n], helpers[n].where, '%s deletes %r, expected %r' % (n, lit, want[n]), sample='%s deletes %r' % (n, lit))
    others = [c.get('n') for c in calls(up.body) if c.get('n') in ('toupper', 'erase', 'replace')]
    ctx.ob('C13.N4', 'uptolow-only-tolower', not others, up.where, 'uptolow also calls %s' % others, sample='only std::tolower', nontrivial=False)
    # ---- N5
    for scalar in cat.SCALARS:
        sc = 'ld' if scalar == 'long double' else 'd'
        im = [f for f in prog.functions if f.n == 'init_mms' and 'MasterMS<%s>' % scalar in f.get('rec', '')]
        ctx.require(len(im) == 1, 'init_mms<%s> not found' % scalar)
        im = im[0]
        # decided on the ownership simulation of init_mms (sa/ownership.py): one path per matching candidate
        res, info = own.check_init(prog, im, scalar)
        inc = bool(res['complete'])

        def verdict(problems):
            return (not problems) if not inc else (False if problems else None)
        ctx.ob('C13.N5', 'handle-verbatim|' + sc, verdict(res['key']), im.where, '; '.join(res['key'][:2]) or 'not decided: ' + '; '.join(res['complete'][:2]),
               sample='%d returning paths install under the unmodified handle parameter' % info['returning'])
        ctx.ob('C13.N5', 'name-normalised|' + sc, verdict(res['name-match']), im.where, '; '.join(res['name-match'][:2]) or 'not decided: ' + '; '.join(res['complete'][:2]),
               sample='each installed candidate is the one whose name equals masa_map(name parameter)')
        unmatched = res['one-install'] + res['fatal-registers']
        ctx.ob('C13.N5', 'no-match-is-fatal|' + sc, verdict(unmatched), im.where, '; '.join(unmatched[:2]) or 'not decided: ' + '; '.join(res['complete'][:2]),
               sample='the only paths that install nothing end in masa_exit; no terminating path installs anything')
        sm = [f for f in prog.functions if f.n == 'select_mms' and 'MasterMS<%s>' % scalar in f.get('rec', '')]
        ctx.require(len(sm) == 1, 'select_mms<%s> not found' % scalar)
        sp, ngood = own.check_select(prog, sm[0], scalar)
        ctx.ob('C13.N5', 'select-verbatim|' + sc, not sp, sm[0].where, 'select_mms: ' + '; '.join(sp[:2]), sample='_master_pointer = _master_map.find(my_name)->second')
