"""C01 - heat conduction: the source equals rho*cp(T)*dT/dt - div(k(T) grad T) of the documented field."""
from .. import residual as rs, poly
from .. import catalogue as cat
from ..report import AnalysisBroken

LEVEL = 'proof'


def run(ctx, prog):
    ctx.rule('C01.RES', 'canonical normal form of eval_q_t equals that of rho*cp(T)*T_t - div(k(T) grad T), T = cos(A_x x + A_t t) cos(B_y y + B_t t) cos(C_z z + C_t t) cos(D_t t) '
             '(factors per dimension / steadiness), k = k_0 + k_1 T + k_2 T^2, cp likewise; derivative by the sin/cos table')
    ctx.rule('C01.EXACT', 'where the class provides eval_exact_t its normal form equals the documented field')
    ctx.rule('C01.UNI', 'the long double instantiation of each evaluator has the same normal form as the double one')
    ctx.explanation = ('Equality of canonical polynomial normal forms (ring axioms + sin^2 = 1 - cos^2) of the code\'s source term and of the residual operator applied to the '
                       'manufactured field: a proof for every parameter assignment and every point, for all 12 solutions. Nothing is evaluated numerically.')
    n = 0
    for dim in (1, 2, 3):
        for un in (False, True):
            for var in (False, True):
                short = 'heateq_%dd_%s_%s' % (dim, 'unsteady' if un else 'steady', 'var' if var else 'const')
                coords = ['x', 'y', 'z'][:dim] + (['t'] if un else [])
                T = rs.heat_T(dim, un)
                R = rs.heat_residual(T, dim, un, var)
                polys = {}
                for scalar in cat.SCALARS:
                    cls = 'MASA::%s<%s>' % (short, scalar)
                    ctx.require(cls in prog.records, 'catalogue class %s not found' % cls)
                    try:
                        Q, fn = rs.evaluator_poly(prog, cls, scalar, 'eval_q_t', coords)
                        ctx.require(Q is not None, '%s has no eval_q_t(%s)' % (short, ','.join(coords)))
                        Ex, efn = rs.evaluator_poly(prog, cls, scalar, 'eval_exact_t', coords)
                    except rs.Inconclusive as ex:
                        raise AnalysisBroken(str(ex))
                    polys[scalar] = (Q, Ex)
                    if scalar == 'double':
                        n += 1
                        rs.compare(ctx, 'C01.RES', short, Q, R, fn.where, '%s::eval_q_t' % short)
                        if Ex is not None:
                            rs.compare(ctx, 'C01.EXACT', short, Ex, T, efn.where, '%s::eval_exact_t' % short)
                same = polys['double'][0] == polys['long double'][0] and polys['double'][1] == polys['long double'][1]
                ctx.ob('C01.UNI', short, same, '', '%s: double and long double instantiations are different expressions' % short, sample='%s<double> == %s<long double>' % (short, short))
    ctx.floor('heat_solutions', n, 12)
    ctx.trusted = ['clang 14 front end', 'tools/masa-ir', 'sa/terms.py forward substitution', 'sa/poly.py normal form + derivative table', 'the 6-line heat operator in sa/residual.py']
