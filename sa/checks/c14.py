"""C14 - catalogue integrity (DESIGN 2, C14)."""
import json
import os
import re
from fractions import Fraction
from .. import catalogue as cat
from .. import terms, nf
from ..ast import strip, flat_stmts, calls, str_value, member_path, is_this_member, int_value, show, nodes
from ..ir import walk, VERIF
from ..report import AnalysisBroken
from .c15 import literal_value

LEVEL = 'other'
MARKER = Fraction('-12345.67')


def ctor_of(prog, cls):
    c = [f for f in prog.methods_of(cls) if f.get('ctor') and len(f.params) == 0]
    return c[0] if c else None


def init_var_of(prog, cls):
    owner, m = cat.resolve_virtual(prog, cls, 'init_var', 'int ()')
    if owner is None:
        return None
    c = prog.fn(owner + '::init_var', 'int ()')
    return c[0] if c else None


def member_stores(fn, name):
    """assignments `this->name = expr` in fn: list of rhs"""
    out = []
    for n in walk(fn.body):
        if n.get('k') == 'bin' and n['op'] == '=' and is_this_member(n['a'], name):
            out.append(n)
        if n.get('k') == 'call' and n.get('n') == 'operator=' and n.get('opcall') and is_this_member(n['args'][0], name):
            out.append(n)
    return out


def enumeration_idiom(prog, cls, fn, helper_call):
    """power-law solution: `helper h(this); this->foreach_parameter(h);` where h::operator() is a single
    p->HELPER(name.c_str(), [&]value).  Returns True when fn uses the idiom with that helper."""
    for c in calls(fn.body, name='foreach_parameter'):
        a = strip(c['args'][0], casts=True) if c['args'] else None
        if a is None:
            continue
        t = None
        for n in walk(a):
            if n.get('k') in ('local', 'construct') and 'helper<' in str(n.get('t', '')):
                t = n['t']
        if t is None:
            continue
        ops = [f for f in prog.functions if f.get('rec') == t and f.n == 'operator()']
        if len(ops) != 1:
            continue
        st = flat_stmts(ops[0].body)
        if len(st) != 1:
            continue
        e = strip(st[0])
        if e.get('k') == 'call' and e.get('n') == helper_call and 'manufactured_solution<' in e.get('rec', ''):
            from ..ast import string_from
            a0 = string_from(e['args'][0])
            a0 = strip(a0, casts=True) if a0 is not None else strip(e['args'][0], casts=True)
            a1 = strip(e['args'][1], casts=True)
            name_ok = a0.get('k') == 'call' and a0.get('n') == 'c_str' and strip(a0['obj'], casts=True).get('k') == 'param'
            if helper_call == 'register_var':
                val_ok = a1.get('k') == 'un' and a1['op'] == '&' and strip(a1['e']).get('k') == 'param'
            else:
                val_ok = a1.get('k') == 'param'
            if name_ok and val_ok:
                return True
    return False


def vector_overwritten(iv, vname, n_values=()):
    """init_var redefines every element of member vector vname: resize(n) followed by stores that cover [0, size):
    a fill loop `for (i = s; i < V.size(); ++i) V[i] = ...` plus constant-index stores for 0..s-1, or constant-index
    stores covering 0..n-1 for a constant n; or clear()/assign()/whole-vector assignment"""
    from ..ast import is_local
    if vname is None:
        return False, 'registered address is not a member'
    st = flat_stmts(iv.body)
    resized_at = None
    n_const = None
    consts = set()
    loop_from = None
    cleared = False
    for i, s_ in enumerate(st):
        e = strip(s_, casts=True)
        if e.get('k') == 'call' and e.get('obj') is not None and is_this_member(e['obj'], vname):
            if e['n'] == 'resize':
                if resized_at is None or len(set(n_values)) != 1:
                    consts, loop_from = set(), None     # a later resize to the same constant length keeps the elements stored so far
                resized_at = i
                if len(e['args']) >= 2 and not cleared:
                    # resize(n, v) only fills NEW elements
                    pass
            elif e['n'] in ('clear',):
                cleared = True
            elif e['n'] == 'assign':
                return True, ''
        if e.get('k') == 'call' and e.get('opcall') and e.get('n') == 'operator=' and is_this_member(e['args'][0], vname):
            return True, ''
        if e.get('k') == 'bin' and e['op'] == '=' and resized_at is not None:
            l = strip(e['a'], casts=True)
            if l.get('k') == 'call' and l.get('n') == 'operator[]' and is_this_member(l['args'][0], vname):
                iv_ = int_value(l['args'][1])
                if iv_ is not None:
                    consts.add(iv_)
        if e.get('k') == 'for' and resized_at is not None:
            init = e.get('init')
            if init and init.get('k') == 'decl' and len(init['vars']) == 1:
                start = int_value(init['vars'][0].get('init'))
                lid = init['vars'][0]['id']
                c = strip(e['c'], casts=True)
                b = strip(c.get('b'), casts=True) if c.get('k') == 'bin' else {}
                full = c.get('k') == 'bin' and c['op'] in ('<', '!=') and is_local(c['a'], lid, casts=True) and b.get('k') == 'call' and b.get('n') == 'size' and \
                    b.get('obj') is not None and strip(b['obj'], casts=True).get('k') == 'member'
                body = flat_stmts(e['body'])
                stores = [x for x in body if x.get('k') == 'bin' and x['op'] == '=' and strip(x['a'], casts=True).get('k') == 'call' and
                          strip(x['a'], casts=True).get('n') == 'operator[]' and is_this_member(strip(x['a'], casts=True)['args'][0], vname) and
                          is_local(strip(x['a'], casts=True)['args'][1], lid, casts=True)]
                if full and start is not None and len(stores) == 1 and len(body) == 1:
                    loop_from = start if loop_from is None else min(loop_from, start)
    if cleared and resized_at is not None:
        return True, ''
    if resized_at is None:
        return False, 'never resized'
    if loop_from is not None and set(range(loop_from)) <= consts:
        return True, ''
    # constant-size case: every index below the (single, constant) length is stored
    if len(set(n_values)) == 1 and n_values[0] is not None and set(range(n_values[0])) <= consts:
        return True, ''
    return False, 'after resize only elements %s%s are assigned' % (sorted(consts)[:4], (' and [%d, size)' % loop_from) if loop_from is not None else '')


_STUB_CACHE = {}


def falls_back_to_stub(prog, cls, owner, name, sig, scalar):
    """the override of slot name/sig that class cls inherits from owner does, on an object of class cls, nothing but what the
    base-class stub does: every path prints a literal containing MASA ERROR and returns -1.33 (an arity guard of a class that
    serves several dimensions)"""
    key = (id(prog), cls, name, sig)
    if key in _STUB_CACHE:
        return _STUB_CACHE[key]
    res = False
    c = prog.fn(owner + '::' + name, sig)
    if c and c[0].body is not None and any(n.get('k') == 'if' for n in walk(c[0].body)):
        E = terms.Evaluator(prog, dyn_class=cls, scalar=scalar, noreturn=('masa_exit',))
        try:
            outs = E.run(c[0])
        except RecursionError:
            outs = []
        paths = list(outs) + [p for p in E.trace.exit_paths if p not in outs]
        sentinel = (('neg', terms.num(Fraction(133, 100))), terms.num(Fraction(-133, 100)))
        res = bool(paths) and all(o.kind == 'ret' and o.ret in sentinel and any(e[0] == 'print' and 'MASA ERROR' in e[1] for e in o.events) for o in paths)
    _STUB_CACHE[key] = res
    return res


def run(ctx, prog):
    ctx.rule('C14.K1', 'get_list_mms<double> and <long double> register the same classes in the same order and contain nothing but registrations')
    ctx.rule('C14.K2', 'each constructor assigns mmsname one string literal: non-empty, pairwise distinct, its own normal form (no upper case, dash or blank); '
             'mmsname and dimension are written only in constructors of catalogue classes; return_name copies mmsname')
    ctx.rule('C14.K3', 'the constructor chain leaves in dimension an integer constant equal to the largest number of Scalar coordinates among the evaluators the class provides (an override that only falls back to the base stub for this class is not provided), minus one for classes with a time argument (tables/temporal.json); no provided evaluator takes fewer coordinates than the dimension')
    ctx.rule('C14.K4', 'registered names == names given a default by init_var (set_var with an argument built from literals and earlier defaults, never the marker); '
             'every set_var name is registered; every registered vector is given a non-empty value in init_var')
    ctx.rule('C14.K5', 'the constructor calls init_var() after the last register_var/register_vec')
    ctx.rule('C14.K7', 'every evaluator override returns a value on every path')
    ctx.explanation = ('Enumerated over the catalogue of the tree under analysis (get_list_mms), both scalars. K2+K4+K5 imply masa_get_name == name, '
                       'masa_init_param() == 0 and masa_sanity_check() == 0 right after masa_init for every non-fixture entry; K3 gives masa_get_dimension; '
                       'override exactness and API closure are shared with C15.R3/R5.')
    tt = json.load(open(os.path.join(VERIF, 'tables', 'temporal.json')))
    lists = {}
    for scalar in cat.SCALARS:
        fn, ents, other = cat.entries(prog, scalar)
        lists[scalar] = [cat.short(c) for c, _, _ in ents]
        ctx.floor('catalogue_entries<%s>' % scalar, len(ents), 37)
        extra = list(other)
        ctx.ob('C14.K1', 'only-registrations|' + scalar, not extra, fn.where,
               'get_list_mms does something besides listing freshly created solutions: %s at %s' % ((extra[0].get('what'), extra[0].get('l')) if extra else ('', '')),
               sample='%d freshly created objects listed, no other effect' % len(ents))
    ctx.ob('C14.K1', 'same-lists', lists['double'] == lists['long double'], 'src/masa_core.cpp',
           'catalogues differ between double and long double: %s' % sorted(set(lists['double']) ^ set(lists['long double'])),
           sample=lists['double'][:5])

    # who-may-write mmsname/dimension
    ctor_classes = set()
    for scalar in cat.SCALARS:
        for c in cat.entries(prog, scalar)[1]:
            for r in prog.base_chain(c[0]):
                ctor_classes.add(r)
    for f in prog.functions:
        if f.get('ctor') and f.get('rec') in ctor_classes:
            continue
        for nm in ('mmsname', 'dimension'):
            for n in walk(f.body):
                if n.get('k') == 'member' and n['n'] == nm and 'manufactured_solution<' in n.get('rec', ''):
                    pass
        for nm in ('mmsname', 'dimension'):
            st = member_stores(f, nm)
            ctx.ob('C14.K2', 'who-may-write|%s|%s' % (nm, f.q), not st, f.where, '%s is assigned outside a catalogue constructor' % nm, nontrivial=False) if st else None
    # return_name
    for scalar in cat.SCALARS:
        rn = prog.find_method(cat.BASE % scalar, 'return_name')
        ctx.require(len(rn) == 1, 'return_name not found')
        st = flat_stmts(rn[0].body)
        ok = False
        for s in st:
            e = strip(s)
            if e.get('k') == 'call' and e.get('n') in ('operator=', 'assign'):
                tgt = e['args'][0] if e.get('opcall') else e.get('obj')
                src = e['args'][1] if e.get('opcall') else e['args'][0]
                t = strip(tgt, casts=True)
                if t.get('k') == 'un' and t['op'] == '*':
                    t = strip(t['e'], casts=True)
                if t.get('k') == 'param' and is_this_member(src, 'mmsname'):
                    ok = True
            if e.get('k') == 'bin' and e['op'] == '=' and is_this_member(e['b'], 'mmsname'):
                ok = True
        ctx.ob('C14.K2', 'return_name|' + scalar, ok, rn[0].where, 'return_name does not copy mmsname into its argument', sample='*inname = mmsname')

    names = {}
    for scalar in cat.SCALARS:
        sc = 'ld' if scalar == 'long double' else 'd'
        fn, ents, other = cat.entries(prog, scalar)
        seen = {}
        for cls, _, _ in ents:
            short = cat.short(cls)
            ctor = ctor_of(prog, cls)
            ctx.require(ctor is not None, 'default constructor of %s not in IR' % cls)
            # ---- K2
            st = member_stores(ctor, 'mmsname')
            lit = None
            if len(st) == 1:
                rhs = st[0]['args'][1] if st[0].get('k') == 'call' else st[0]['b']
                lit = str_value(rhs)
            if lit is None:
                lit = cat.name_literal(prog, cls)      # the constructor chain evaluated (base constructors with arguments, tables)
            ok = lit is not None and lit != '' and lit == lit.lower() and '-' not in lit and ' ' not in lit
            ctx.ob('C14.K2', 'name|%s|%s' % (short, sc), ok, ctor.where,
                   'mmsname of %s is %r (must be one non-empty literal in normal form: lower case, no dash, no blank)' % (short, lit),
                   sample='%s -> "%s"' % (short, lit))
            if lit is not None:
                ctx.ob('C14.K2', 'unique|%s|%s' % (short, sc), lit not in seen, ctor.where,
                       'name "%s" is also the name of %s' % (lit, seen.get(lit)), sample=lit)
                seen[lit] = short
            # ---- K3
            st = member_stores(ctor, 'dimension')
            dim = int_value(st[0]['b']) if len(st) == 1 and st[0].get('k') == 'bin' else None
            if dim is None:
                dv = cat.ctor_constants(prog, cls).get('dimension')
                if dv is not None and dv[0] == 'num' and dv[1].denominator == 1:
                    dim = int(dv[1])
            bv = cat.base_virtuals(prog, scalar)
            maxc = 0
            overrides = []
            for (name, sig), m in bv.items():
                if not name.startswith('eval_'):
                    continue
                owner, mm = cat.resolve_virtual(prog, cls, name, sig)
                if owner and owner != cat.BASE % scalar:
                    if falls_back_to_stub(prog, cls, owner, name, sig, scalar):
                        continue        # an override that, for this class, only forwards to the "not provided" stub
                    npar = [p for p in mm['params'] if p['t'] == scalar]
                    maxc = max(maxc, len(npar))
                    overrides.append((name, sig, owner))
            if short not in cat.FIXTURES:
                want = maxc - (1 if short in tt['temporal'] and short not in tt['dimension_counts_time'] else 0)
                if short in tt.get('dimension_override', {}):
                    want = tt['dimension_override'][short]
                few = sorted(set('%s(%d)' % (n_, len([p_ for p_ in prog.fn(o_ + '::' + n_, s_)[0].params if p_['t'] == scalar])) for n_, s_, o_ in overrides
                                 if prog.fn(o_ + '::' + n_, s_) and 0 < len([p_ for p_ in prog.fn(o_ + '::' + n_, s_)[0].params if p_['t'] == scalar]) < (dim or 0)))
                ctx.ob('C14.K3', 'arity|%s|%s' % (short, sc), not few, ctor.where,
                       '%s has dimension %s but answers %s: a field of a %s-dimensional solution cannot be evaluated at fewer coordinates (it must be the -1.33 stub)' % (short, dim, few[:3], dim),
                       sample='%s: every provided evaluator takes at least %s coordinates' % (short, dim), nontrivial=False)
                ctx.ob('C14.K3', '%s|%s' % (short, sc), dim is not None and dim == want, ctor.where,
                       'dimension of %s is %s; its evaluators take up to %d Scalar coordinates%s => expected %d' % (
                           short, dim, maxc, ' (one is time)' if short in tt['temporal'] else '', want),
                       sample='%s: dimension=%s' % (short, dim))
            # ---- K4 / K5
            if short in cat.FIXTURES:
                continue
            iv = init_var_of(prog, cls)
            ctx.require(iv is not None, 'init_var of %s not in IR' % cls)
            regs = cat.registrations(prog, cls)
            if True:
                regnames = [r['name'] for r in regs]
                regmap = {r['name']: '.'.join(r['path'][1:]) for r in regs if r['name'] is not None and r['path'] and r['path'][0] == 'this'}
                E = terms.Evaluator(prog, dyn_class=cls, scalar=scalar, regmap=regmap, opaque=('register_var', 'register_vec'))
                E.vecmodel = True
                E.loop_new_members = True       # a member first assigned inside a summarised loop keeps a (summary) value
                vreg = [r for r in regs if r['kind'] == 'var']
                if vreg and all(r['path'] and r['path'][0] == 'this' for r in vreg):
                    # the slot array as construction leaves it: vararr[k] is the address of the k-th registered member (slot 0 is
                    # the dummy), num_vars their number - what a default-setting loop over the slots writes to
                    E.init_mem = {'vararr': ('cvec', (('unk', 'dummy slot'),) + tuple(('addr', ('sym', '.'.join(r['path'][1:]))) for r in vreg)),
                                  'num_vars': terms.num(len(vreg))}
                outs = E.run(iv)
                from .. import loops as loopmod
                whole_map_set = bool(E.trace.setvar_all) and all(any(t_[0] for t_ in loopmod.traversals(o_.events, 'varmap')) for o_ in outs)
                setnames = [c[0] for c in E.trace.setvar_calls if c[2] == 'set_var']
                for r in regs:
                    if r['kind'] != 'var':
                        continue
                    path = '.'.join(r['path'][1:]) if r['path'] and r['path'][0] == 'this' else None
                    rname = r['name'] if r['name'] is not None else path
                    bad = None if path is not None else 'registered address is not a member of the instance'
                    vals = set()
                    for o in (outs if path is not None else []):
                        v = o.mem.get(path)
                        if v is None:
                            bad = 'parameter "%s" of %s is registered but init_var gives it no default on some path (stays at the marker, sanity_check fails)' % (rname, short)
                            break
                        vals.add(v)
                        if terms.has_unk(v):
                            bad = 'default of %s is not a constant expression (%s)' % (rname, terms.has_unk(v)[0])
                        elif [x for x in terms.syms(v) if x != 'pi' and not x.startswith(('const:', '@loop:', '@old:'))]:
                            bad = 'default of %s depends on %s' % (rname, sorted(x for x in terms.syms(v) if x != 'pi' and not x.startswith(('const:', '@loop:', '@old:')))[:3])
                        else:
                            p1 = nf.nf(v)
                            if p1 == nf.const_poly(MARKER):
                                bad = 'default of %s equals the uninitialised marker' % rname
                    if E.trace.setvar_all and not whole_map_set and bad is None:
                        bad = 'INCONCLUSIVE'
                    if bad is None and vals and all(v_[0] == 'call' and v_[1] == 'loop' for v_ in vals) and not whole_map_set:
                        bad = 'INCONCLUSIVE'
                    ctx.ob('C14.K4', '%s|registered-has-constant-default|%s|%s' % (short, rname, sc), (bad is None) if bad != 'INCONCLUSIVE' else None, r['node'].get('l'),
                           (bad or '') if bad != 'INCONCLUSIVE' else 'the default is assigned inside a loop that is not a recognised traversal of the whole parameter map: not decided',
                           sample='%s.%s = %s' % (short, rname, terms.fmt(next(iter(vals)))[:40] if vals else '?'))
                varnames = [r['name'] for r in regs if r['kind'] == 'var']
                for nm in setnames:
                    if nm is None:
                        continue    # name built at run time (power-law enumeration): the value check above is by member
                    ctx.ob('C14.K4', '%s|default-is-registered|%s|%s' % (short, nm, sc), nm in varnames, iv.where,
                           'init_var sets "%s" which %s never registers (set_var fails, init_param != 0)' % (nm, short), nontrivial=False)
                dup = set(n for n in regnames if n is not None and regnames.count(n) > 1)
                ctx.ob('C14.K4', '%s|distinct-names|%s' % (short, sc), not dup, ctor.where, 'names registered twice: %s' % sorted(dup), sample='%d names' % len(regnames))
                # vectors: every path of init_var leaves each registered vector with a known positive length and every
                # element stored during this very call (concrete vector model of sa/terms.py); when the length is not a
                # constant the syntactic fill-loop rule decides, and an idiom neither recognises is inconclusive
                for r in regs:
                    if r['kind'] != 'vec':
                        continue
                    vpath = '.'.join(r['path'][1:]) if r['path'] else None
                    finals = [o.mem.get(vpath) for o in outs] if vpath else []
                    modelled = bool(finals) and all(v is not None and v[0] == 'cvec' for v in finals)
                    if modelled:
                        filled = all(len(v[1]) > 0 for v in finals)
                        stale = sorted(set(i_ for v in finals for i_, x in enumerate(v[1]) if x is None))
                        nonconst = [terms.fmt(x)[:40] for v in finals for x in v[1] if x is not None and (terms.has_unk(x) or [y for y in terms.syms(x) if y != 'pi' and not y.startswith('const:')])]
                        okc = not stale and not nonconst
                        whyc = ('elements %s keep their previous value' % stale[:6]) if stale else ('element value %s is not a constant' % nonconst[:1])
                    else:
                        filled = False
                        for (pth, meth, args, loc) in E.trace.obj_calls:
                            if pth != vpath:
                                continue
                            if meth == 'resize' and args:
                                a0 = args[0]
                                if a0[0] == 'call' and a0[1] == 'trunc':
                                    a0 = a0[2][0]
                                pv = nf.nf(a0)
                                sv = nf.as_single(pv)
                                filled = filled or (sv is not None and sv[1] == () and sv[0] > 0)
                            elif meth in ('push_back', 'assign'):
                                filled = True
                        for c in E.trace.setvar_calls:
                            if c[2] == 'set_vec' and c[0] == r['name']:
                                filled = True
                        touched = any(pth == vpath for (pth, meth, args, loc) in E.trace.obj_calls) or vpath in E.trace.writes
                        okc, whyc = vector_overwritten(iv, r['path'][-1] if r['path'] else None, ())
                        if not okc and touched:
                            okc = None      # written by an idiom outside both models: not decided
                            whyc = 'idiom not recognised (%s)' % whyc
                        if not filled and touched and any(v is not None and v[0] != 'cvec' for v in finals):
                            filled = None
                    ctx.ob('C14.K4', '%s|vector-default|%s|%s' % (short, r['name'], sc), filled, r['node'].get('l'),
                           'vector "%s" of %s is registered but init_var leaves it empty' % (r['name'], short), sample='%s.%s resized' % (short, r['name']))
                    ctx.ob('C14.K4', '%s|vector-overwritten|%s|%s' % (short, r['name'], sc), okc, r['node'].get('l'),
                           'init_var of %s does not redefine every element of "%s" (%s): masa_init_param would keep values set through masa_set_vec' % (short, r['name'], whyc),
                           sample='%s.%s: every element reassigned after resize' % (short, r['name']))
            # ---- K5
            order = []
            for c in calls(ctor.body):
                if c.get('n') in ('register_var', 'register_vec', 'foreach_parameter'):
                    order.append('reg')
                elif c.get('n') == 'init_var':
                    order.append('init')
            ok = 'init' in order and order.index('init') > max([i for i, o in enumerate(order) if o == 'reg'] or [-1])
            if not ok:
                # the constructor chain evaluated (an intermediate base-class constructor may register and initialise)
                from ..api import flat as flat_events
                Ec = terms.Evaluator(prog, dyn_class=cls, scalar=scalar, opaque=('register_var', 'register_vec', 'init_var', 'foreach_parameter'))
                try:
                    outs_c = Ec.run(ctor)
                except RecursionError:
                    outs_c = []
                ok = bool(outs_c)
                nreg = 0
                for o_ in outs_c:
                    seq = [('init' if e_[1][0].endswith('::init_var') else 'reg') for e_ in flat_events(o_.events)
                           if e_[0] == 'call' and e_[1][0].split('::')[-1] in ('register_var', 'register_vec', 'foreach_parameter', 'init_var')]
                    nreg = max(nreg, seq.count('reg'))
                    ok = ok and 'init' in seq and max(i for i, x in enumerate(seq) if x == 'init') > max([i for i, x in enumerate(seq) if x == 'reg'] or [-1])
                order = ['reg'] * nreg
            ctx.ob('C14.K5', '%s|%s' % (short, sc), ok, ctor.where, 'constructor of %s does not call init_var() after its last registration' % short,
                   sample='%s: %d registrations then init_var()' % (short, order.count('reg')))
            # ---- K7
            for name, sig, owner in overrides:
                f = prog.fn(owner + '::' + name, sig)
                if not f:
                    ctx.ob('C14.K7', '%s::%s|%s|%s' % (short, name, sig, sc), False, ctor.where, '%s::%s %s is declared but has no definition' % (short, name, sig))
                    continue
                E = terms.Evaluator(prog, dyn_class=cls, scalar=scalar, inline=False)
                outs = E.run(f[0])
                fall = [o for o in outs if o.kind != 'ret']
                ctx.ob('C14.K7', '%s::%s|%s|%s' % (short, name, sig, sc), not fall, f[0].where,
                       '%s::%s can reach the end of the function without returning a value' % (short, name), sample='%s::%s: %d path(s), all return' % (short, name, len(outs)))
