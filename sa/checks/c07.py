"""C07 - gradient API (DESIGN 2, C07).

G1 forwarding (shared with C15.R2), G2 direction dispatch and error value,
G3 per-direction dependency, G5 term-by-term pairing with the exact field via a
table-driven derivative of sin/cos modes compared in normal form.
"""
import json
import os
from fractions import Fraction
from .. import catalogue as cat
from .. import terms, nf
from ..ir import VERIF
from ..report import AnalysisBroken
from . import c15

LEVEL = 'other'
COORDS = ['x', 'y', 'z', 't']


def temporal_table():
    return json.load(open(os.path.join(VERIF, 'tables', 'temporal.json')))


def grad_overrides(prog, cls, scalar):
    """[(field, Fn, n scalar coords, has direction)]"""
    out = []
    bv = cat.base_virtuals(prog, scalar)
    for (name, sig), m in bv.items():
        if not name.startswith('eval_g_'):
            continue
        owner, mm = cat.resolve_virtual(prog, cls, name, sig)
        if owner is None or owner == cat.BASE % scalar:
            continue
        fns = prog.fn(owner + '::' + name, sig)
        if not fns:
            raise AnalysisBroken('%s::%s %s overrides a gradient slot but has no body' % (cls, name, sig))
        f = fns[0]
        nsc = sum(1 for p in f.params if p['t'] == scalar)
        has_dir = bool(f.params) and f.params[-1]['t'] == 'int'
        out.append((name[len('eval_g_'):], f, nsc, has_dir))
    return out


def linear_in(t, x):
    """(a, b) with t = a*x + b for rational constants a, b; None when t is not of that form"""
    k = t[0]
    if k == 'num':
        return (Fraction(0), Fraction(t[1]))
    if k == 'sym':
        return (Fraction(1), Fraction(0)) if t[1] == x else None
    if k == 'neg':
        r = linear_in(t[1], x)
        return None if r is None else (-r[0], -r[1])
    if k == 'add':
        a = b = Fraction(0)
        for y in t[1]:
            r = linear_in(y, x)
            if r is None:
                return None
            a, b = a + r[0], b + r[1]
        return (a, b)
    if k == 'mul':
        a, b = Fraction(0), Fraction(1)
        for y in t[1]:
            r = linear_in(y, x)
            if r is None or (r[0] != 0 and a != 0):
                return None
            if r[0] != 0:
                a, b = r[0] * b, r[1] * b
            else:
                a, b = a * r[1], b * r[1]
        return (a, b)
    if k == 'call' and t[1] == 'trunc' and len(t[2]) == 1:
        return linear_in(t[2][0], x)
    return None


def is_error_value(t):
    """literal -1 or a NaN constructor: independent of point and parameters by construction"""
    if t[0] == 'neg' and t[1][0] == 'num' and t[1][1] == 1:
        return True
    if t[0] == 'num' and t[1] == -1:
        return True
    if t[0] == 'call' and t[1] in ('signaling_NaN', 'quiet_NaN') and not t[2]:
        return True
    return False


def run(ctx, prog):
    ctx.rule('C07.G1', 'masa_eval_grad_X<Scalar>(args) is `return masa_master<Scalar>().get_ms().eval_g_X(args)` with the same overload (24 entry points x 2)')
    ctx.rule('C07.G2', 'for every eval_g_* override with an int direction: directions 1..(number of spatial coordinates) return a computed value; every other int '
             '(each explicit case label and the default / fall-out path) returns the literal -1 or signaling_NaN(), an expression with no operand')
    ctx.rule('C07.G3', 'direction i reads coordinate i and exactly the symbols of those summands of the exact field that contain coordinate i')
    ctx.rule('C07.G5', 'normal form of direction i equals the table-driven derivative (sin->cos*dP, cos->-sin*dP, product rule) of the normal form of eval_exact_<field>')
    ctx.explanation = ('Forwarding and dispatch are decided completely (every int direction is covered by the finite set of case labels plus one '
                       'representative of the default path). The value of each component is decided by normal-form equality with a table-driven derivative '
                       'of the exact field, which holds for all parameters and points because both sides are the same polynomial in the same atoms.')
    c15.run(ctx, prog, only_grad=True)
    tt = temporal_table()
    n_over = 0
    for scalar in cat.SCALARS:
        sc = 'ld' if scalar == 'long double' else 'd'
        fn, ents, other = cat.entries(prog, scalar)
        for cls, _, _ in ents:
            name = cat.short(cls)
            for field, f, nsc, has_dir in grad_overrides(prog, cls, scalar):
                n_over += 1
                nspace = nsc - (1 if name in tt['temporal'] else 0)
                key0 = '%s::eval_g_%s/%d|%s' % (name, field, nsc, sc)
                names = COORDS[:nsc] + (['i'] if has_dir else [])
                if nsc > len(COORDS):
                    raise AnalysisBroken('%s takes %d coordinates' % (key0, nsc))
                # exact field with the same coordinates
                esig = '%s (%s)' % (scalar, ', '.join([scalar] * nsc))
                eowner, em = cat.resolve_virtual(prog, cls, 'eval_exact_' + field, esig)
                exact_nf = None
                if eowner and eowner != cat.BASE % scalar:
                    ef = prog.fn(eowner + '::eval_exact_' + field, esig)[0]
                    EE = terms.Evaluator(prog, dyn_class=cls, scalar=scalar)
                    eo = EE.run(ef, arg_names=COORDS[:nsc])
                    if len(eo) == 1 and eo[0].ret is not None and not terms.has_unk(eo[0].ret):
                        exact_nf = nf.nf(eo[0].ret)
                if not has_dir:
                    dirs = [(None, 0)]
                else:
                    # Every integer the direction is compared with (case labels, if/else and ternary tests, inlined helpers) is a
                    # breakpoint; between two breakpoints the function takes the same path for every direction.  Testing each
                    # breakpoint and its two neighbours, 1..n, and the two ends therefore covers every int.
                    E0 = terms.Evaluator(prog, dyn_class=cls, scalar=scalar)
                    outs0 = E0.run(f, arg_names=names)
                    labels = set()
                    for ls in E0.trace.switch_labels:
                        for l in ls:
                            if l not in ('default', None):
                                labels.add(int(l))
                            elif l is None:
                                raise AnalysisBroken('%s: non-constant case label' % key0)
                    odd = []

                    def scan_tables(t):
                        # the direction used (through a linear form) as an index into a constant table: every index of the
                        # table is a case of its own, and the two positions just outside it are the out-of-range cases
                        for st in terms.subterms(t):
                            if st[0] == 'elem' and st[1][0] in ('arr', 'aptr') and 'i' in terms.syms(st[2]):
                                la = linear_in(st[2], 'i')
                                n_ = len(st[1][1]) if st[1][0] == 'arr' else len(st[1][1][1])
                                if la is None or la[0] == 0:
                                    odd.append('table index ' + terms.fmt(st[2])[:40])
                                    continue
                                for pos in range(-1, n_ + 1):
                                    q_ = (Fraction(pos) - la[1]) / la[0]
                                    if q_.denominator == 1:
                                        labels.add(int(q_))

                    def strip_tables(c):
                        # a condition that depends on the direction only through such a table lookup is decided per index
                        if isinstance(c, tuple) and c and c[0] == 'elem' and c[1][0] in ('arr', 'aptr'):
                            return ('sym', '@table')
                        if isinstance(c, tuple):
                            return tuple(strip_tables(x) if isinstance(x, tuple) else x for x in c)
                        return c

                    def scan(c):
                        if not isinstance(c, tuple) or not c:
                            return
                        if c[0] == 'cmp':
                            if 'i' not in terms.syms(c):
                                return
                            la, lb = linear_in(c[2], 'i'), linear_in(c[3], 'i')
                            if la is None or lb is None or la[0] == lb[0]:
                                odd.append(terms.fmt(c)[:60])
                                return
                            # (a1 - a2) i + (b1 - b2) ~ 0: the comparison changes its value only around -(b1-b2)/(a1-a2)
                            q_ = -(la[1] - lb[1]) / (la[0] - lb[0])
                            labels.add(int(q_.numerator // q_.denominator))
                            labels.add(int(-((-q_.numerator) // q_.denominator)))
                            return
                        if c[0] == 'switch-default':
                            return
                        for x_ in c[1:]:
                            if isinstance(x_, tuple):
                                if x_ and isinstance(x_[0], str):
                                    scan(x_)
                                else:
                                    for y_ in x_:
                                        scan(y_)
                    for o_ in outs0:
                        for c_ in o_.conds:
                            scan_tables(c_)
                            scan(strip_tables(c_))
                        if o_.ret is not None:
                            scan_tables(o_.ret)
                            for st in terms.subterms(o_.ret):
                                if st[0] == 'ite':
                                    scan(strip_tables(st[1]))
                    if odd:
                        ctx.ob('C07.G2', key0 + '|dispatch', None, f.where, 'the direction is tested other than by comparison with integer constants (%s): the finite set of representatives is not justified' % odd[:2])
                        continue
                    cand = set(range(0, nspace + 2)) | {-1}
                    for l in labels:
                        cand |= {l - 1, l, l + 1}
                    cand |= {min(cand) - 1, max(cand) + 1, -2 ** 31, 2 ** 31 - 1}
                    dirs = [(v, v) for v in sorted(cand)]
                for lab, v in dirs:
                    E = terms.Evaluator(prog, dyn_class=cls, scalar=scalar)
                    bind = {len(f.params) - 1: terms.num(v)} if has_dir else None
                    outs = E.run(f, arg_names=names, bind=bind)
                    key = '%s|dir=%s' % (key0, lab)
                    if len(outs) != 1 or outs[0].kind != 'ret' or outs[0].ret is None:
                        ctx.ob('C07.G2', key, None, f.where, 'direction %s does not reduce to a single path (%d paths)' % (lab, len(outs)))
                        continue
                    r = outs[0].ret
                    valid = (not has_dir) or (isinstance(lab, int) and 1 <= lab <= nspace)
                    if has_dir and terms.has_unk(r):
                        ctx.ob('C07.G2', key, None, f.where, 'direction %s: the returned expression contains a construct outside the model (%s): not decided' % (lab, terms.has_unk(r)[0][:40]))
                        continue
                    if has_dir:
                        if valid:
                            ok = not is_error_value(r) and bool(terms.syms(r))
                            ctx.ob('C07.G2', key, ok, f.where, 'direction %d of eval_g_%s returns `%s`, not a gradient component' % (lab, field, terms.fmt(r)[:60]),
                                   sample='%s -> computed value' % key)
                        else:
                            ok = is_error_value(r)
                            ctx.ob('C07.G2', key, ok, f.where,
                                   'direction %s of eval_g_%s (outside 1..%d) returns `%s` instead of the error value' % (lab, field, nspace, terms.fmt(r)[:80]),
                                   sample='%s -> %s' % (key, terms.fmt(r)))
                            continue
                    if not valid:
                        continue
                    xi = COORDS[(lab - 1) if has_dir else 0]
                    if terms.has_unk(r):
                        ctx.ob('C07.G3', key, None, f.where, 'component contains an unmodelled construct %s' % terms.has_unk(r)[:2])
                        continue
                    rn = nf.nf(r)
                    reads = nf.syms_of(rn)
                    if exact_nf is None:
                        ctx.ob('C07.G3', key, None, f.where, 'no exact field eval_exact_%s with %d coordinates to compare with' % (field, nsc))
                        continue
                    allowed = set()
                    for m in exact_nf:
                        ms = nf.mono_syms(m)
                        if xi in ms:
                            allowed |= ms
                    extra = reads - allowed - {'pi', 'const:twopi'}
                    missing = allowed - reads - {'pi', 'const:twopi'}
                    ok = not extra and not missing and xi in reads
                    why = []
                    if extra:
                        why.append('reads %s which no %s-dependent mode of eval_exact_%s contains' % (sorted(extra), xi, field))
                    if missing:
                        why.append('does not read %s which the %s-dependent modes of eval_exact_%s contain' % (sorted(missing), xi, field))
                    ctx.ob('C07.G3', key, ok, f.where, '; '.join(why), sample='%s reads %s' % (key, sorted(reads)[:8]))
                    # G5
                    try:
                        want = nf.derivative(exact_nf, xi)
                    except nf.NotInShape as ex:
                        ctx.ob('C07.G5', key, None, f.where, 'exact field outside the two table shapes: %s' % ex)
                        continue
                    d = nf.diff(rn, want)
                    if not d:
                        ctx.ob('C07.G5', key, True, f.where, sample='%s == d/d%s eval_exact_%s (%d monomials)' % (key, xi, field, len(want)))
                    else:
                        definite = not any(a[0] in ('sum', 'opaque', 'ite') for a in nf.atoms_of(d, deep=False))
                        msg = 'component differs from d/d%s eval_exact_%s in: %s' % (xi, field, nf.fmt(d, 4))
                        ctx.ob('C07.G5', key, False if definite else None, f.where, msg)
    ctx.floor('gradient_overrides', n_over, 2 * (3 + 4 + 5 + 4 + 5 + 6))
