"""C06 - reacting Euler (N/N2): species, momentum and energy sources close consistently."""
from fractions import Fraction
from .. import residual as rs, poly
from .. import catalogue as cat
from ..report import AnalysisBroken

LEVEL = 'proof'
S = poly.sym
add, mul, d = poly.add, poly.mul, poly.diff


def P(term, env):
    return poly.from_term(term, env)


def run(ctx, prog):
    ctx.rule('C06.SPECIES', 'normal form of eval_q_rho_N / eval_q_rho_N2 equals d(rho_s u)/dx -/+ w, w = (2 kf_N rho_N + kf_N2 rho_N2) (rho_N2/(2 M_N) - rho_N^2/(M_N^2 K_eq(T))), '
             'kf_M = Cf_M T^eta_M exp(-Ea_M/(R T)), K_eq the caller\'s function applied to the exact temperature (an uninterpreted application atom)')
    ctx.rule('C06.SUM', 'eval_q_rho_N + eval_q_rho_N2 equals d(rho u)/dx identically in the uninterpreted K_eq (the reaction terms cancel for every callback)')
    ctx.rule('C06.MOM', 'eval_q_rho_u equals d(rho u^2 + p)/dx with p = (rho_N R_N + rho_N2 R_N/2) T')
    ctx.rule('C06.ENERGY', 'eval_q_rho_e equals d(u (rho e_t + p))/dx with e_N = 3/2 R_N T + h0_N, e_N2 = 5/4 R_N T + R_N2 theta_v/(exp(theta_v/T) - 1) + h0_N2 and the kinetic energy')
    ctx.rule('C06.FIELDS', 'eval_exact_rho equals eval_exact_rho_N + eval_exact_rho_N2')
    ctx.rule('C06.UNI', 'the long double instantiation has the same normal forms')
    ctx.explanation = ('Canonical normal-form equality with exp, T^eta and the user callback as uninterpreted atoms (derivative rules for exp, pow and reciprocal only): proofs for all '
                       'parameters, all x and every callback K_eq. The gas constant of N2 is R_N/2 in pressure and thermal energy and R_N2 in the vibrational energy, as the code has it.')
    res = {}
    for scalar in cat.SCALARS:
        cls = 'MASA::euler_chem_1d<%s>' % scalar
        ctx.require(cls in prog.records, '%s not in IR' % cls)
        try:
            F = {}
            for f in ('rho', 'rho_N', 'rho_N2', 'u', 't'):
                F[f], _ = rs.evaluator_poly(prog, cls, scalar, 'eval_exact_' + f, ['x'])
                ctx.require(F[f] is not None, 'euler_chem_1d::eval_exact_%s missing' % f)
            cb = [scalar + ' (*)(' + scalar + ')']
            QN, fN = rs.evaluator_poly(prog, cls, scalar, 'eval_q_rho_N', ['x'], extra_sig=cb)
            QN2, fN2 = rs.evaluator_poly(prog, cls, scalar, 'eval_q_rho_N2', ['x'], extra_sig=cb)
            Qu, fu = rs.evaluator_poly(prog, cls, scalar, 'eval_q_rho_u', ['x'])
            Qe, fe = rs.evaluator_poly(prog, cls, scalar, 'eval_q_rho_e', ['x'])
            ctx.require(None not in (QN, QN2, Qu, Qe), 'euler_chem_1d source evaluators missing')
        except rs.Inconclusive as ex:
            raise AnalysisBroken(str(ex))
        res[scalar] = (F, QN, QN2, Qu, Qe)
        if scalar != 'double':
            continue
        env = {'RN': F['rho_N'], 'RN2': F['rho_N2'], 'U': F['u'], 'T': F['t']}
        sym = lambda n: ('sym', n)
        num = lambda v: ('num', Fraction(v))
        m = lambda *a: ('mul', tuple(a))
        a_ = lambda *a: ('add', tuple(a))
        kf = lambda s: m(sym('Cf1_' + s), ('call', 'pow', (sym('T'), sym('etaf1_' + s))),
                         ('call', 'exp', (('neg', ('div', ('div', sym('Ea_' + s), sym('R')), sym('T'))),)))
        Keq = ('apply', sym('cb0'), (sym('T'),))
        front = a_(m(num(2), kf('N'), sym('RN')), m(kf('N2'), sym('RN2')))
        w = m(front, a_(('div', sym('RN2'), m(num(2), sym('M_N'))), ('neg', ('div', m(sym('RN'), sym('RN')), m(sym('M_N'), sym('M_N'), Keq)))))
        W = P(w, env)
        rs.compare(ctx, 'C06.SPECIES', 'rho_N', QN, add(d(mul(F['rho_N'], F['u']), 'x'), W, -1), fN.where, 'euler_chem_1d::eval_q_rho_N')
        rs.compare(ctx, 'C06.SPECIES', 'rho_N2', QN2, add(d(mul(F['rho_N2'], F['u']), 'x'), W), fN2.where, 'euler_chem_1d::eval_q_rho_N2')
        rs.compare(ctx, 'C06.SUM', 'rho_N+rho_N2', add(QN, QN2), d(mul(F['rho'], F['u']), 'x'), fN.where, 'eval_q_rho_N + eval_q_rho_N2')
        rs.compare(ctx, 'C06.FIELDS', 'rho', F['rho'], add(F['rho_N'], F['rho_N2']), '', 'euler_chem_1d::eval_exact_rho')
        p_ = P(m(a_(m(sym('RN'), sym('R_N')), m(sym('RN2'), sym('R_N'), num(Fraction(1, 2)))), sym('T')), env)
        rs.compare(ctx, 'C06.MOM', 'rho_u', Qu, d(add(mul(mul(F['rho'], F['u']), F['u']), p_), 'x'), fu.where, 'euler_chem_1d::eval_q_rho_u')
        evib = ('div', m(sym('R_N2'), sym('theta_v_N2')), a_(('call', 'exp', (('div', sym('theta_v_N2'), sym('T')),)), num(-1)))
        rhoE = a_(m(sym('RN'), a_(m(num(Fraction(3, 2)), sym('R_N'), sym('T')), sym('h0_N'))),
                  m(sym('RN2'), a_(m(num(Fraction(5, 4)), sym('R_N'), sym('T')), evib, sym('h0_N2'))),
                  m(num(Fraction(1, 2)), a_(sym('RN'), sym('RN2')), sym('U'), sym('U')))
        rhoH = add(P(rhoE, env), p_)
        rs.compare(ctx, 'C06.ENERGY', 'rho_e', Qe, d(mul(rhoH, F['u']), 'x'), fe.where, 'euler_chem_1d::eval_q_rho_e')
    ctx.ob('C06.UNI', 'euler_chem_1d', res['double'] == res['long double'], '', 'double and long double instantiations are different expressions', sample='9 evaluators identical')
    ctx.trusted = ['clang 14 front end', 'tools/masa-ir', 'sa/terms.py', 'sa/poly.py', 'the reacting-Euler operator in sa/checks/c06.py']
