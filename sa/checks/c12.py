"""C12 - handle registry (DESIGN 2, C12)."""
from .. import terms
from .. import catalogue as cat
from ..ast import strip, flat_stmts, calls, nodes, is_param, is_local, is_this_member, full_container_loop, assigned_in, show, whole_container_traversal
from ..ir import walk
from ..report import AnalysisBroken
from .. import ownership as own
from .. import api as apimod

LEVEL = 'other'


ALLOWED_WRITERS = {'_master_map': ('init_mms',), '_master_pointer': ('init_mms', 'select_mms')}


def run(ctx, prog):
    ctx.rule('C12.H1', 'with every callee inlined, whichever entry point is called, the registry map is modified only while the registry method init_mms is executing and the selection pointer only inside init_mms / select_mms (what these do for arbitrary arguments is H2 and the select rule); '
             'select_mms assigns the pointer the mapped value of exactly the looked-up key')
    ctx.rule('C12.H2', 'the object init_mms installs is an element of the vector that get_list_mms filled in the same call; every element is a new-expression; no candidate is static, cached or shared')
    ctx.rule('C12.H3', 'every address passed to register_var/register_vec is a non-static data member (or sub-object member) of the object under construction; solution classes have no mutable static data')
    ctx.rule('C12.H4', 'every API template uses masa_master<Scalar>() of its own Scalar; the two registries are distinct globals')
    ctx.rule('C12.H5', 'list_mms iterates the whole map and prints size(); masa_get_name / masa_get_dimension copy mmsname / dimension of the selected object')
    ctx.explanation = ('Isolation of handles follows from: one fresh heap object per successful masa_init (H2), parameters living inside that object (H3), and a single '
                       'selection pointer written only from the map (H1). These are facts about who may write what, true for every interleaving.')
    for scalar in cat.SCALARS:
        sc = 'ld' if scalar == 'long double' else 'd'
        rq = [r for r in prog.records if r.endswith('MasterMS<%s>' % scalar)]
        ctx.require(len(rq) == 1, 'MasterMS<%s> not found' % scalar)
        rq = rq[0]
        meths = {f.n: f for f in prog.methods_of(rq)}
        # a registry method that is never instantiated means no API function of this precision reaches it
        missing = [need for need in ('init_mms', 'select_mms', 'list_mms') if need not in meths]
        for need in missing:
            users = [f.n for f in prog.functions if f.q.startswith('MASA::') and not f.get('rec') and f.scalar == scalar and
                     any(c.get('n') == need and not c.get('q', '').endswith('MasterMS<%s>::%s' % (scalar, need)) for c in calls(f.body))]
            ctx.ob('C12.H4', 'registry-method-instantiated|%s|%s' % (need, sc), False, prog.records[rq]['l'],
                   'MasterMS<%s>::%s is never instantiated: no %s API function operates on the %s registry (%s call another precision\'s registry)' % (
                       scalar, need, scalar, scalar, users or 'its callers'))
        if missing:
            continue
        # ---- H1 / H4: every API entry point of this precision is evaluated with its callees inlined (registry accessor, registry
        # methods, helpers); what counts is which registry object it touches and which of its two members it can write
        regs = {}
        for sc2 in cat.SCALARS:
            acc = [f for f in prog.functions if f.n == 'masa_master' and f.q.endswith('masa_master<%s>' % sc2)]
            ctx.require(len(acc) == 1, 'masa_master<%s> not found' % sc2)
            E0 = terms.Evaluator(prog, scalar=sc2)
            o0 = E0.run(acc[0])
            ctx.require(len(o0) == 1 and o0[0].ret is not None and o0[0].ret[0] == 'sym' and o0[0].ret[1].startswith('global:'), 'masa_master<%s>() does not return a global object' % sc2)
            regs[sc2] = o0[0].ret[1]
        own_reg = regs[scalar]
        writers = {'_master_map': set(), '_master_pointer': set()}
        outside = {'_master_map': [], '_master_pointer': []}
        outside_fns = {}
        n_api = 0
        for f in prog.functions:
            if not (f.q.startswith('MASA::') and not f.get('rec') and f.scalar == scalar):
                continue
            ev = terms.Evaluator(prog, scalar=scalar, noreturn=('masa_exit',))
            try:
                ev.run(f)
            except RecursionError:
                raise AnalysisBroken('%s: too deep' % f.q)
            touched = set('global:' + q for q in ev.trace.globals_read if 'global:' + q in regs.values())
            for pth in ev.trace.writes:
                for fld in writers:
                    if pth.endswith('.' + fld) and pth[:-len(fld) - 1] in regs.values():
                        touched.add(pth[:-len(fld) - 1])
                        writers[fld].add(f.n)
                        # which registry method performs the write (its callers may be any entry point: what the
                        # method does with arbitrary arguments is decided by H2 / select-assigns-found)
                        for stk in ev.trace.write_stacks.get(pth, ()):
                            via = [q for q in stk if q.split('::')[-1] in ALLOWED_WRITERS[fld] and q.startswith(rq + '::')]
                            if not via:
                                outside[fld].append('%s at %s%s' % (f.n, ev.trace.writes[pth][0], (' (in %s)' % stk[-1].split('::')[-1]) if stk else ''))
                                outside_fns[(f.q, f.sig)] = f
            if not touched:
                continue
            n_api += 1
            wrong = sorted(t for t in touched if t != own_reg)
            ctx.ob('C12.H4', '%s|%s' % (f.n, f.sig), not wrong, f.where, '%s<%s> operates on the registry %s' % (f.n, scalar, [w.split('::')[-1] for w in wrong]),
                   sample='%s -> %s' % (f.n, own_reg.split('::')[-1]), nontrivial=not f.n.startswith('masa_eval_'))
        ctx.floor('api_functions_using_registry<%s>' % scalar, n_api, 100)
        # an entry point that changes the registry elsewhere is accepted if every path follows the removal protocol: the entry
        # found under a checked key is erased, its object deleted, the selection pointer not left on the deleted object
        undecided_out = []
        if outside_fns:
            remaining = {'_master_map': [], '_master_pointer': []}
            for (q_, sg_), f_ in sorted(outside_fns.items()):
                probs_, rec_ = [], True
                for rp in own.removal_paths(prog, f_, scalar):
                    pr_, lk_, ok_ = own.check_removal(rp)
                    rec_ = rec_ and ok_
                    probs_ += pr_
                if not rec_:
                    undecided_out.append(f_.n)
                elif probs_:
                    for fld in remaining:
                        remaining[fld] += ['%s: %s' % (f_.n, x) for x in sorted(set(probs_))[:2]]
                ctx.ob('C12.H1', 'removal|%s|%s' % (f_.n, sc), (not probs_) if rec_ else None, f_.where,
                       '%s: %s' % (f_.n, '; '.join(sorted(set(probs_))[:2])) if rec_ else '%s changes the registry outside init_mms / select_mms in a way the removal rule does not recognise: not decided' % f_.n,
                       sample='%s: erases a found entry, deletes its object, never leaves the selection on it' % f_.n)
            outside = {k_: ([x for x in v_ if x.split(' at ')[0] in undecided_out] + remaining[k_]) for k_, v_ in outside.items()}
            if undecided_out and not any(remaining.values()):
                outside = {'_master_map': [], '_master_pointer': []}
        okm = not outside['_master_map']
        okp = not outside['_master_pointer']
        ctx.ob('C12.H1', 'map-writers|' + sc, okm and 'masa_init' in writers['_master_map'], prog.records[rq]['l'],
               'the registry map is modified outside init_mms: %s' % outside['_master_map'][:3] if not okm else 'masa_init does not modify the registry map',
               sample='registry map modified only inside init_mms (entry points: %s)' % sorted(writers['_master_map']))
        ctx.ob('C12.H1', 'pointer-writers|' + sc, okp and {'masa_init', 'masa_select_mms'} <= writers['_master_pointer'], prog.records[rq]['l'],
               'the selection pointer is written outside init_mms / select_mms: %s' % outside['_master_pointer'][:3] if not okp else 'masa_init / masa_select_mms do not write the selection pointer',
               sample='selection pointer written only inside init_mms / select_mms (entry points: %s)' % sorted(writers['_master_pointer']))
        # select_mms: every non-fatal path leaves the pointer on find(parameter)->second, guarded by the handle being registered
        sm = meths['select_mms']
        sp, ngood = own.check_select(prog, sm, scalar)
        ctx.ob('C12.H1', 'select-assigns-found|' + sc, not sp, sm.where, 'select_mms: ' + '; '.join(sp[:2]), sample='_master_pointer = _master_map.find(my_name)->second')
        # ---- H2: decided on the ownership simulation of init_mms (sa/ownership.py)
        im = meths['init_mms']
        res, info = own.check_init(prog, im, scalar)
        inc = bool(res['complete'])
        probs = res['one-install'] + res['selected'] + res['old-entry'] + res['key']
        gl, ents, other = cat.entries(prog, scalar)
        for g_ in own.reachable_from(prog, [gl]).values():
            for s_ in walk(g_.body):
                if s_.get('k') == 'decl':
                    for v_ in s_['vars']:
                        if v_.get('static') and not terms.const_object_type(v_.get('t', '')):
                            probs.append('%s keeps the mutable static local `%s`: candidates could be cached or shared between calls' % (g_.n, v_['n']))
        ok = (not probs) if not inc else (False if probs else None)
        ctx.ob('C12.H2', 'fresh-instance|' + sc, ok, im.where, '; '.join(probs[:2]) or 'not decided: ' + '; '.join(res['complete'][:2]),
               sample='each of %d returning paths installs exactly one of the %d objects created in the same call, under the handle, replacing and deleting the previous one, and selects it' % (
                   info['returning'], max(info['created'] or [0])))
        # ---- H3
        n_addr = 0
        for cls, _, _ in ents:
            short = cat.short(cls)
            from .c14 import ctor_of
            ctor = ctor_of(prog, cls)
            E = terms.Evaluator(prog, dyn_class=cls, scalar=scalar, opaque=('register_var', 'register_vec', 'init_var'))
            outs = E.run(ctor)
            bad = []
            for o in outs:
                for e in o.events:
                    if e[0] == 'call' and e[1][0].endswith(('::register_var', '::register_vec')):
                        a = e[1][1][1]
                        n_addr += 1
                        tgt = a[1] if a[0] == 'addr' else a
                        if not (tgt[0] == 'sym' and not tgt[1].startswith(('global:', 'const:', 'fn:', 'this:', 'ctorarg'))):
                            bad.append('%s at %s' % (terms.fmt(a)[:40], e[2]))
            for r in prog.base_chain(cls):
                rec = prog.records.get(r)
                for sdm in (rec or {}).get('statics', []):
                    if not sdm['const']:
                        bad.append('mutable static data member %s::%s' % (r, sdm['n']))
            ctx.ob('C12.H3', '%s|%s' % (short, sc), not bad, ctor.where, '%s registers storage that is not a member of the instance: %s' % (short, bad[:2]),
                   sample='%s: all registered addresses are members of *this' % short, nontrivial=short not in cat.FIXTURES[1:])
        ctx.floor('registered_addresses<%s>' % scalar, n_addr, 700)
        # ---- H5
        lm = meths['list_mms']
        full, loop_, it_ = whole_container_traversal(lm.body, lambda o: o is not None and is_this_member(o, '_master_map'))
        sizes = [c for c in calls(lm.body, name='size')]
        ctx.ob('C12.H5', 'list_mms|' + sc, (full and bool(sizes)) if full is not None else None, lm.where,
               'list_mms does not iterate the whole of _master_map and print its size' if full is not None else 'list_mms walks the registry by an idiom outside the recognised ones: not decided',
               sample='for it in _master_map: print it->first, name; size()')
        B = cat.BASE % scalar
        for fn_name, member in (('return_name', 'mmsname'), ('return_dim', 'dimension')):
            f = prog.find_method(B, fn_name)
            ctx.require(len(f) == 1, '%s not found' % fn_name)
            reads = [n for n in walk(f[0].body) if n.get('k') == 'member' and n['n'] == member]
            stores = [n for n in walk(f[0].body) if (n.get('k') == 'bin' and n['op'] == '=') or (n.get('k') == 'call' and n.get('n') in ('assign', 'operator='))]
            ctx.ob('C12.H5', '%s|%s' % (fn_name, sc), bool(reads) and len(stores) == 1, f[0].where, '%s does not copy %s to its argument' % (fn_name, member),
                   sample='%s copies %s' % (fn_name, member))
        # masa_get_name / masa_get_dimension: evaluated with callees inlined, the only store goes through the caller's pointer and
        # its value is mmsname / dimension of the selected solution
        ptr = apimod.pointer_path(prog, scalar)
        for api_name, member in (('masa_get_name', 'mmsname'), ('masa_get_dimension', 'dimension')):
            f = [x for x in prog.functions if x.q == 'MASA::%s<%s>' % (api_name, scalar)]
            ctx.require(len(f) == 1, '%s<%s> not found' % (api_name, scalar))
            E_, paths_ = apimod.evaluate(prog, f[0], scalar)
            pn = f[0].params[0]['n']
            want = ('sym', ptr + '*.' + member)
            probs = []
            good = [o for o in paths_ if o.kind != 'exit']
            if not good:
                probs.append('no returning path')
            for o in good:
                v = o.mem.get(pn)
                st = [e for e in apimod.flat(o.events) if e[0] == 'write-through' and e[1] == ('sym', pn)]
                if v is None and st and len(st[-1]) > 3:
                    v = st[-1][3]
                if v is not None and v[0] == 'call' and v[1] in ('container:assign', 'container:operator=') and len(v[2]) == 2:
                    v = v[2][1]
                if v != want:
                    probs.append('*%s receives `%s`, expected %s of the selected solution' % (pn, terms.fmt(v)[:50] if v else 'nothing', member))
            ctx.ob('C12.H5', '%s|%s' % (api_name, sc), not probs, f[0].where, '%s: %s' % (api_name, '; '.join(probs[:2])), sample='%s -> *arg = selected.%s' % (api_name, member))
    # distinct registries (shared with C10.P5)
    g = [q for q in prog.vars if 'masa_master_' in q]
    ctx.ob('C12.H4', 'two-globals', len(g) == 2 and len(set(prog.vars[q]['t'] for q in g)) == 2, 'src/masa_core.cpp', 'registry globals: %s' % g, sample=str(sorted(g)))
