"""C12 - handle registry (DESIGN 2, C12)."""
from .. import terms
from .. import catalogue as cat
from ..ast import strip, flat_stmts, calls, nodes, is_param, is_local, is_this_member, full_container_loop, assigned_in, show
from ..ir import walk
from ..report import AnalysisBroken
from .. import ownership as own

LEVEL = 'other'


def run(ctx, prog):
    ctx.rule('C12.H1', '_master_map is modified only in init_mms and the destructor, _master_pointer only in init_mms / select_mms (and the constructor); '
             'select_mms assigns the pointer the mapped value of exactly the looked-up key')
    ctx.rule('C12.H2', 'the object init_mms installs is an element of the vector that get_list_mms filled in the same call; every element is a new-expression; no candidate is static, cached or shared')
    ctx.rule('C12.H3', 'every address passed to register_var/register_vec is a non-static data member (or sub-object member) of the object under construction; solution classes have no mutable static data')
    ctx.rule('C12.H4', 'every API template uses masa_master<Scalar>() of its own Scalar; the two registries are distinct globals')
    ctx.rule('C12.H5', 'list_mms iterates the whole map and prints size(); masa_get_name / masa_get_dimension copy mmsname / dimension of the selected object')
    ctx.explanation = ('Isolation of handles follows from: one fresh heap object per successful masa_init (H2), parameters living inside that object (H3), and a single '
                       'selection pointer written only from the map (H1). These are facts about who may write what, true for every interleaving.')
    for scalar in cat.SCALARS:
        sc = 'ld' if scalar == 'long double' else 'd'
        rq = [r for r in prog.records if r.endswith('MasterMS<%s>' % scalar)]
        ctx.require(len(rq) == 1, 'MasterMS<%s> not found' % scalar)
        rq = rq[0]
        meths = {f.n: f for f in prog.methods_of(rq)}
        # a registry method that is never instantiated means no API function of this precision reaches it
        missing = [need for need in ('init_mms', 'select_mms', 'list_mms') if need not in meths]
        for need in missing:
            users = [f.n for f in prog.functions if f.q.startswith('MASA::') and not f.get('rec') and f.scalar == scalar and
                     any(c.get('n') == need and not c.get('q', '').endswith('MasterMS<%s>::%s' % (scalar, need)) for c in calls(f.body))]
            ctx.ob('C12.H4', 'registry-method-instantiated|%s|%s' % (need, sc), False, prog.records[rq]['l'],
                   'MasterMS<%s>::%s is never instantiated: no %s API function operates on the %s registry (%s call another precision\'s registry)' % (
                       scalar, need, scalar, scalar, users or 'its callers'))
        if missing:
            continue
        # ---- H1
        writers = {'_master_map': set(), '_master_pointer': set()}
        for f in prog.functions:
            E = None
            for n in walk(f.body):
                if n.get('k') == 'member' and n['n'] in writers and n.get('rec') == rq:
                    E = True
            if not E:
                continue
            ev = terms.Evaluator(prog, scalar=scalar, inline=False, noreturn=('masa_exit',))
            outs = ev.run(f)
            for o in outs + ev.trace.exit_paths:
                def visit(evs):
                    for e in evs:
                        if e[0] == 'write' and e[1] in writers:
                            writers[e[1]].add(f.n)
                        if e[0] == 'loop':
                            for kind, conds, sub in e[1][1]:
                                visit(sub)
                visit(o.events)
            if f.get('ctor'):
                for i in f.inits:
                    if i.get('member') in writers:
                        writers[i['member']].add(f.n)
        okm = writers['_master_map'] <= {'init_mms', '~MasterMS', 'MasterMS'}
        okp = writers['_master_pointer'] <= {'init_mms', 'select_mms', 'MasterMS'}
        ctx.ob('C12.H1', 'map-writers|' + sc, okm and 'init_mms' in writers['_master_map'], prog.records[rq]['l'],
               '_master_map is modified by %s' % sorted(writers['_master_map']), sample='_master_map written by %s' % sorted(writers['_master_map']))
        ctx.ob('C12.H1', 'pointer-writers|' + sc, okp and {'init_mms', 'select_mms'} <= writers['_master_pointer'], prog.records[rq]['l'],
               '_master_pointer is written by %s' % sorted(writers['_master_pointer']), sample='_master_pointer written by %s' % sorted(writers['_master_pointer']))
        # select_mms: every non-fatal path leaves the pointer on find(parameter)->second, guarded by the handle being registered
        sm = meths['select_mms']
        sp, ngood = own.check_select(prog, sm, scalar)
        ctx.ob('C12.H1', 'select-assigns-found|' + sc, not sp, sm.where, 'select_mms: ' + '; '.join(sp[:2]), sample='_master_pointer = _master_map.find(my_name)->second')
        # ---- H2: decided on the ownership simulation of init_mms (sa/ownership.py)
        im = meths['init_mms']
        res, info = own.check_init(prog, im, scalar)
        inc = bool(res['complete'])
        probs = res['one-install'] + res['selected'] + res['old-entry'] + res['key']
        gl, ents, other = cat.entries(prog, scalar)
        for s_ in walk(gl.body):
            if s_.get('k') == 'local' and s_.get('static'):
                probs.append('get_list_mms uses a static local')
        ok = (not probs) if not inc else (False if probs else None)
        ctx.ob('C12.H2', 'fresh-instance|' + sc, ok, im.where, '; '.join(probs[:2]) or 'not decided: ' + '; '.join(res['complete'][:2]),
               sample='each of %d returning paths installs exactly one of the %d objects created in the same call, under the handle, replacing and deleting the previous one, and selects it' % (
                   info['returning'], max(info['created'] or [0])))
        # ---- H3
        n_addr = 0
        for cls, _, _ in ents:
            short = cat.short(cls)
            from .c14 import ctor_of
            ctor = ctor_of(prog, cls)
            E = terms.Evaluator(prog, dyn_class=cls, scalar=scalar, opaque=('register_var', 'register_vec', 'init_var'))
            outs = E.run(ctor)
            bad = []
            for o in outs:
                for e in o.events:
                    if e[0] == 'call' and e[1][0].endswith(('::register_var', '::register_vec')):
                        a = e[1][1][1]
                        n_addr += 1
                        tgt = a[1] if a[0] == 'addr' else a
                        if not (tgt[0] == 'sym' and not tgt[1].startswith(('global:', 'const:', 'fn:', 'this:', 'ctorarg'))):
                            bad.append('%s at %s' % (terms.fmt(a)[:40], e[2]))
            for r in prog.base_chain(cls):
                rec = prog.records.get(r)
                for sdm in (rec or {}).get('statics', []):
                    if not sdm['const']:
                        bad.append('mutable static data member %s::%s' % (r, sdm['n']))
            ctx.ob('C12.H3', '%s|%s' % (short, sc), not bad, ctor.where, '%s registers storage that is not a member of the instance: %s' % (short, bad[:2]),
                   sample='%s: all registered addresses are members of *this' % short, nontrivial=short not in cat.FIXTURES[1:])
        ctx.floor('registered_addresses<%s>' % scalar, n_addr, 700)
        # ---- H4
        n_api = 0
        for f in prog.functions:
            if not (f.q.startswith('MASA::') and not f.get('rec') and f.scalar == scalar):
                continue
            mm = [c for c in calls(f.body, name='masa_master')]
            if not mm:
                continue
            n_api += 1
            wrong = [c['q'] for c in mm if not c['q'].endswith('masa_master<%s>' % scalar)]
            ctx.ob('C12.H4', '%s|%s' % (f.n, f.sig), not wrong, f.where, '%s<%s> uses registry %s' % (f.n, scalar, wrong), sample='%s -> masa_master<%s>()' % (f.n, scalar),
                   nontrivial=not f.n.startswith('masa_eval_'))
        ctx.floor('api_functions_using_registry<%s>' % scalar, n_api, 125)
        # ---- H5
        lm = meths['list_mms']
        full = None
        for l in nodes(lm.body, 'for'):
            it = full_container_loop(l, lambda o: is_this_member(o, '_master_map'))
            if it is not None and not assigned_in(l['body'], it):
                full = l
        sizes = [c for c in calls(lm.body, name='size')]
        ctx.ob('C12.H5', 'list_mms|' + sc, full is not None and bool(sizes), lm.where, 'list_mms does not iterate the whole of _master_map and print its size',
               sample='for it in _master_map: print it->first, name; size()')
        B = cat.BASE % scalar
        for fn_name, member in (('return_name', 'mmsname'), ('return_dim', 'dimension')):
            f = prog.find_method(B, fn_name)
            ctx.require(len(f) == 1, '%s not found' % fn_name)
            reads = [n for n in walk(f[0].body) if n.get('k') == 'member' and n['n'] == member]
            stores = [n for n in walk(f[0].body) if (n.get('k') == 'bin' and n['op'] == '=') or (n.get('k') == 'call' and n.get('n') in ('assign', 'operator='))]
            ctx.ob('C12.H5', '%s|%s' % (fn_name, sc), bool(reads) and len(stores) == 1, f[0].where, '%s does not copy %s to its argument' % (fn_name, member),
                   sample='%s copies %s' % (fn_name, member))
        for api, helper in (('masa_get_name', 'return_name'), ('masa_get_dimension', 'return_dim')):
            f = [x for x in prog.functions if x.q == 'MASA::%s<%s>' % (api, scalar)]
            ctx.require(len(f) == 1, '%s<%s> not found' % (api, scalar))
            c = [c for c in calls(f[0].body, name=helper)]
            ok = len(c) == 1 and is_param(c[0]['args'][0], 0)
            ctx.ob('C12.H5', '%s|%s' % (api, sc), ok, f[0].where, '%s does not pass its argument to %s of the selected solution' % (api, helper), sample='%s -> get_ms().%s(arg)' % (api, helper))
    # distinct registries (shared with C10.P5)
    g = [q for q in prog.vars if 'masa_master_' in q]
    ctx.ob('C12.H4', 'two-globals', len(g) == 2 and len(set(prog.vars[q]['t'] for q in g)) == 2, 'src/masa_core.cpp', 'registry globals: %s' % g, sample=str(sorted(g)))
