"""C19 - memory safety: the structural obligations (DESIGN 2, C19).

Only the allocation, initialisation and indexing sites that exist in the
library are decided; every new / delete / container-subscript site is
enumerated from the IR and a site without a rule is an analysis-broken exit.
"""
from .. import terms, nf
from .. import catalogue as cat
from ..ast import strip, flat_stmts, calls, nodes, is_param, is_local, is_this_member, full_container_loop, assigned_in, show, int_value, whole_container_traversal
from ..ir import walk
from ..report import AnalysisBroken
from . import c17
from .c10 import evaluator_overrides
from .c09 import reachable
from ..api import flat as api_flat

LEVEL = 'other'


def destructor_releases(d):
    """~MasterMS deletes the mapped object of every entry: whole-map iterator loop with `delete it->second`, or the
    drain loop `while (!map.empty()) { delete map.begin()->second; map.erase(map.begin()); }`.
    True / False (recognised loop that does not delete) / None (idiom not recognised)"""
    if d is None:
        return False
    verdict = None
    full, l, it = whole_container_traversal(d.body, lambda o: o is not None and is_this_member(o, '_master_map'))
    if full is not None:
        dl = [n for n in nodes(l['body'], 'delete')]
        if full and len(dl) == 1:
            t = strip(dl[0]['e'], casts=True)
            tb = strip(t['base'], casts=True) if t.get('k') == 'member' and t['n'] == 'second' else {}
            if tb.get('k') == 'call' and tb.get('n') in ('operator->', 'operator*') and is_local(tb['args'][0], it, casts=True):
                return True
        verdict = False
    for l in nodes(d.body, 'while'):
        c = strip(l.get('c'), casts=True)
        if not (c.get('k') == 'un' and c['op'] == '!'):
            continue
        ce = strip(c['e'], casts=True)
        if not (ce.get('k') == 'call' and ce.get('n') == 'empty' and is_this_member(ce.get('obj'), '_master_map')):
            continue
        # straight-line body: E(body) on a fresh evaluator gives delete(begin()->second) then erase(begin())
        dl = [n for n in nodes(l['body'], 'delete')]
        er = [n for n in calls(l['body'], name='erase') if is_this_member(n.get('obj'), '_master_map')]
        early = [n for n in walk(l['body']) if n.get('k') in ('return', 'break', 'continue', 'if')]
        if len(dl) == 1 and len(er) == 1 and not early:
            def from_begin(e_, depth=0):
                e_ = strip(e_, casts=True)
                while e_.get('k') == 'construct' and len(e_['args']) == 1:
                    e_ = strip(e_['args'][0], casts=True)
                if e_.get('k') == 'call' and e_.get('n') in ('begin', 'cbegin') and is_this_member(e_.get('obj'), '_master_map'):
                    return True
                if e_.get('k') == 'local' and depth < 3:
                    for dcl in nodes(l['body'], 'decl'):
                        for v_ in dcl['vars']:
                            if v_['id'] == e_['id'] and v_.get('init') is not None and not assigned_in(l['body'], e_['id']):
                                return from_begin(v_['init'], depth + 1)
                return False
            t = strip(dl[0]['e'], casts=True)
            tb = strip(t['base'], casts=True) if t.get('k') == 'member' and t['n'] == 'second' else {}
            if tb.get('k') == 'call' and tb.get('n') in ('operator->', 'operator*') and from_begin(tb['args'][0]) and er[0]['args'] and from_begin(er[0]['args'][0]):
                # the delete must come before the erase (the iterator is dead afterwards)
                order = [n for n in walk(l['body']) if n is dl[0] or n is er[0]]
                return order and order[0] is dl[0]
            verdict = False
    return verdict


def local_new_sites(prog, f, scalar):
    """new-expressions outside the catalogue machinery: decided locally.  Returns [(loc, verdict, why)]: True when every returning
    path deletes the object exactly once, False when a path neither deletes it nor lets it escape, None otherwise"""
    E = terms.Evaluator(prog, scalar=scalar, noreturn=('masa_exit',))
    try:
        outs = E.run(f)
    except RecursionError:
        return [(n['l'], None, 'function too deep') for n in walk(f.body) if n.get('k') == 'new']
    res = {}
    from ..ownership import flat_events
    for o in outs:
        if o.kind == 'exit':
            continue
        evs, summ = flat_events(o.events)
        for e in evs:
            if e[0] != 'new':
                continue
            obj = ('new', e[1], e[2])
            nd = len([x for x in evs if x[0] == 'delete' and x[1] == obj])
            if nd == 1 and not summ:
                v, why = True, ''
            elif nd > 1:
                v, why = False, 'deleted %d times on one path' % nd
            else:
                escapes = any(obj in list(terms.subterms(t)) for t in list(o.mem.values()) + ([o.ret] if o.ret is not None else [])) or \
                    any(x[0] in ('call', 'store', 'write-through') and obj in list(terms.subterms(x[1])) for x in evs) or bool(summ)
                v, why = (None, 'the object escapes the function (stored, returned or passed on): ownership not followed') if escapes else \
                    (False, 'a returning path neither deletes the object nor hands it to anyone: leak')
            old = res.get(e[2])
            if old is None or old[0] is True or (old[0] is None and v is False):
                res[e[2]] = (v, why)
    return [(loc, v, why) for loc, (v, why) in res.items()]


GROW = ('push_back', 'emplace_back')
SHRINK_OR_OTHER = ('pop_back', 'clear', 'resize', 'erase', 'insert', 'assign', 'swap', 'emplace', 'shrink_to_fit', 'operator=')


def counter_in_step(prog, B, counter, arr):
    """Is `counter == arr.size() - 1` kept by every function of the program?  The store grows both together (register_var /
    register_vec: counter++ and arr.push_back as statements of one block).  Returns (True, None), (False, offender) when a
    function changes one without the other, (None, why) when a write is of a form not recognised."""
    def is_member(n, m):
        n = strip(n, casts=True)
        return isinstance(n, dict) and n.get('k') == 'member' and n.get('n') == m and n.get('rec') == B
    for f in prog.functions:
        if f.body is None or f.get('ctor') and f.get('rec') == B:
            continue
        if not any(n.get('k') == 'member' and n.get('n') in (counter, arr) and n.get('rec') == B for n in walk(f.body)):
            continue
        for blk in [n for n in walk(f.body) if n.get('k') == 'block']:
            incs = grows = 0
            for st in blk.get('s') or []:
                st0 = strip(st, casts=True) if isinstance(st, dict) else st
                if not isinstance(st0, dict):
                    continue
                if st0.get('k') == 'un' and st0.get('op') == '++' and is_member(st0.get('e'), counter):
                    incs += 1
                elif st0.get('k') == 'call' and st0.get('n') in GROW and st0.get('obj') is not None and is_member(st0['obj'], arr):
                    grows += 1
            if incs != grows:
                return False, '%s (%s) changes %s %d time(s) and grows %s %d time(s) in one block' % (f.q.split('(')[0], f.where, counter, incs, arr, grows), f.get('rec')
        # any other write to the counter or mutation of the array
        for n in walk(f.body):
            if n.get('k') == 'bin' and n.get('op', '').endswith('=') and n['op'] not in ('==', '!=', '<=', '>=') and is_member(n.get('a'), counter):
                return None, '%s assigns %s (%s)' % (f.q.split('(')[0], counter, f.where), None
            if n.get('k') == 'un' and n.get('op') == '--' and is_member(n.get('e'), counter):
                return False, '%s (%s) decrements %s' % (f.q.split('(')[0], f.where, counter), f.get('rec')
            if n.get('k') == 'call' and n.get('n') in SHRINK_OR_OTHER and n.get('obj') is not None and is_member(n['obj'], arr):
                return None, '%s calls %s.%s (%s)' % (f.q.split('(')[0], arr, n['n'], f.where), None
    return True, None, None


def derived_of(prog, k):
    """names of the classes derived (transitively) from class k"""
    out = set()
    todo = [k]
    while todo:
        x = todo.pop()
        for q, r in prog.records.items():
            if q not in out and any((b.get('q') if isinstance(b, dict) else b) == x for b in r.get('bases', [])):
                out.add(q)
                todo.append(q)
    return out


def this_classes(prog, f, B):
    """the dynamic classes `this` can have when the base-class method f runs: 'ALL' when f is reachable from outside the
    hierarchy (an entry point calling it on the selected solution) or from another base-class method that is; else the set of
    derived classes whose own methods call it on this"""
    seen = set()
    out = set()
    todo = [f]
    while todo:
        g = todo.pop()
        if (g.q, g.sig) in seen:
            continue
        seen.add((g.q, g.sig))
        for h in prog.functions:
            if h.body is None:
                continue
            for c in calls(h.body):
                if not c.get('inrepo') or c.get('n') != g.n:
                    continue
                if c.get('q') != g.q and not (c.get('virt') and g.get('virt')):
                    continue
                ob = strip(c['obj'], casts=True) if c.get('obj') is not None else None
                on_this = ob is None or ob.get('k') == 'this'
                if h.get('rec') == B and on_this:
                    todo.append(h)
                elif h.get('rec') and on_this and h.get('rec') != B:
                    out.add(h.get('rec'))
                else:
                    return 'ALL'
    return out


def terms_with_loops(events, stack=()):
    """(term, enclosing loop events innermost last) for every term of every event, loops kept as a hierarchy"""
    for e in events:
        if e[0] in ('loop', 'branch'):
            st2 = stack + (e,) if e[0] == 'loop' else stack
            if e[0] == 'loop' and e[1][0] is not None:
                yield e[1][0], st2
            for k_, c_, sub in e[1][1]:
                for c in c_:
                    yield c, st2
                for x in terms_with_loops(sub, st2):
                    yield x
        else:
            for x in e[1:]:
                if isinstance(x, tuple):
                    yield x, stack


def counter_bound(idx, stack, arr):
    """idx = loopvar(init, @loop:i) of an enclosing counting loop: ('size', None) when the loop condition bounds it by arr.size(),
    ('member', M) when it is bounded by i <= M / i < M + 1 with M a data member, else None"""
    if not (idx[0] == 'call' and idx[1] == 'loopvar' and idx[2][1][0] == 'sym' and idx[2][1][1].startswith('@loop:')):
        return None
    name = idx[2][1][1][len('@loop:'):]
    init = idx[2][0]
    if not (init[0] == 'num' and init[1] >= 0):
        return None
    for lp in reversed(stack):
        cond = lp[1][0]
        if cond is None or idx not in list(terms.subterms(cond)):
            continue
        # the counter only moves up by one, on every path that goes round again
        for kind, conds, evs in lp[1][1]:
            if kind == 'exit':
                continue
            steps = [x for x in evs if x[0] == 'delta' and x[1][0] == name]
            if kind in ('ret', 'break') and not steps:
                continue
            if len(steps) != 1 or steps[0][1][1] != ('add', (idx, terms.num(1))):
                return None
            # the array is not resized inside the loop
            for x in api_flat(evs):
                if x[0] in ('call', 'libcall') and any(isinstance(y, tuple) and ('sym', arr) in list(terms.subterms(y)) for y in x[1:] if isinstance(y, tuple)):
                    pass
        cs = [cond]
        while cs:
            c = cs.pop()
            if c[0] == 'and':
                cs.extend(c[1] if isinstance(c[1], (list, tuple)) and c[1] and isinstance(c[1][0], tuple) else c[1:])
                continue
            if c[0] == 'cmp' and c[2] == idx:
                if c[1] == '<' and c[3] == ('size', ('sym', arr)):
                    return ('size', None)
                if c[1] in ('<=', '<') and c[3][0] == 'sym' and '.' not in c[3][1] and not c[3][1].startswith(('@', 'global:', 'const:', 'static:')):
                    return ('member', c[3][1])      # i < M is inside i <= M
                if c[1] == '<' and c[3][0] == 'add' and len(c[3][1]) == 2 and terms.num(1) in c[3][1]:
                    m = [x for x in c[3][1] if x != terms.num(1)]
                    if m and m[0][0] == 'sym' and '.' not in m[0][1] and not m[0][1].startswith(('@', 'global:', 'const:', 'static:')):
                        return ('member', m[0][1])
        return None
    return None


def run(ctx, prog):
    ctx.rule('C19.O1', 'ownership of catalogue objects: every object allocated by get_list_mms is, on every normally returning path of init_mms / masa_printid, deleted or installed in _master_map exactly once; '
             'installing under an existing key deletes the previous object first; ~MasterMS deletes every mapped object')
    ctx.rule('C19.O2', 'delete is applied only at the enumerated sites (init_mms, masa_printid, ~MasterMS), to vector elements / map values, never twice on a path')
    ctx.rule('C19.O3', 'every scalar data member of manufactured_solution that is read is assigned by its constructor (num_vars, num_vec, dummy)')
    ctx.rule('C19.O4', 'vararr / vecarr are subscripted only by the mapped value of an iterator of the corresponding map (find result checked against end(), or a whole-map loop), or by a counter the loop condition keeps below the array size (directly, or through a member every function keeps equal to size-1)')
    ctx.rule('C19.O5', "C boundary: an output buffer is never read before it is written; masa_set_array reads exactly [0,*n); masa_get_array writes array[i] for i in [0,size)")
    ctx.rule('C19.O6', 'every element loop over a member vector in code reachable from an evaluator or init_var is bounded by the size of the container it indexes (or by a dominating equal-size guard)')
    ctx.explanation = ('Structural necessary conditions at the enumerated allocation, initialisation and indexing sites. The dynamic claim (sanitizers over all API histories) is not decided; '
                       'what is decided holds for every history because it is a path property of the code.')
    # ---------------- site enumeration
    new_sites, del_sites = [], []
    for f in prog.functions:
        for n in walk(f.body):
            if n.get('k') == 'new':
                new_sites.append((f, n))
            elif n.get('k') == 'delete':
                del_sites.append((f, n))
    from .. import ownership as own
    covered_new, covered_del = set(), set()
    per_scalar = {}
    for scalar in cat.SCALARS:
        sc = 'ld' if scalar == 'long double' else 'd'
        rq = [r for r in prog.records if r.endswith('MasterMS<%s>' % scalar)][0]
        meths = {f.n: f for f in prog.methods_of(rq)}
        ctx.require('init_mms' in meths, 'MasterMS<%s>::init_mms not in IR' % scalar)
        im = meths['init_mms']
        pf = [f for f in prog.functions if f.q == 'MASA::masa_printid<%s>' % scalar]
        ctx.require(len(pf) == 1, 'masa_printid<%s> not found' % scalar)
        pf = pf[0]
        # ---- O1: ownership simulation of init_mms and masa_printid (sa/ownership.py)
        try:
            res, info = own.check_init(prog, im, scalar)
            E_i, facts_i = own.analyse(prog, im, scalar)
            resp, infop = own.check_printid(prog, pf, scalar)
            E_p, facts_p = own.analyse(prog, pf, scalar)
        except RecursionError:
            raise AnalysisBroken('init_mms / masa_printid: simulation too deep')
        for F in facts_i + facts_p:
            for e in F.events:
                if e[0] == 'new':
                    covered_new.add(e[2])
                elif e[0] == 'delete':
                    covered_del.add(e[2])
        ctx.require(info['created'] and max(info['created']) >= 1, 'init_mms: the simulation creates no catalogue object (get_list_mms not followed)')
        incomplete = bool(res['complete'])

        def ob(rule_key, problems, where, sample, incomplete_=False):
            ok = (not problems) if not incomplete_ else (False if problems else None)
            msg = '; '.join(problems[:2]) + (' (+%d more)' % (len(problems) - 2) if len(problems) > 2 else '')
            if ok is None:
                msg = 'not decided: ' + '; '.join(res['complete'][:2] + resp['complete'][:2])
            ctx.ob('C19.O1', rule_key + '|' + sc, ok, where, msg, sample=sample)
        ob('init_mms-candidates', res['candidates'], im.where, 'every candidate deleted or installed exactly once on each of %d returning paths (%d objects)' % (info['returning'], max(info['created'])), incomplete)
        ob('init_mms-no-dangling-entry', res['dangling'], im.where, 'every deleted registered object has its entry replaced on the same path', incomplete)
        ob('init_mms-overwrite', res['old-entry'], im.where, 'old object deleted before the map entry is replaced', incomplete)
        ob('printid', resp['candidates'], pf.where, 'masa_printid deletes each of the %d objects exactly once' % max(infop['created'] or [0]), bool(resp['complete']))
        ctx.ob('C19.O2', 'no-double-delete|init_mms|%s' % sc, not res['double'], im.where, '; '.join(res['double'][:2]), sample='init_mms: at most one delete per object per path')
        ctx.ob('C19.O2', 'no-double-delete|masa_printid|%s' % sc, not resp['double'], pf.where, '; '.join(resp['double'][:2]), sample='masa_printid: at most one delete per object per path')
        # ---- O1 destructor
        d = meths.get('~MasterMS')
        ok = destructor_releases(d)
        ctx.ob('C19.O1', 'destructor|' + sc, ok, d.where if d else prog.records[rq]['l'],
               '~MasterMS does not delete every mapped object' if ok is False else 'the destructor releases the registry by an idiom outside the two recognised ones (iterator loop / drain loop): not decided',
               sample='for it in _master_map: delete it->second')
        if d is not None:
            for n in walk(d.body):
                if n.get('k') == 'delete':
                    covered_del.add(n['l'])
        per_scalar[scalar] = (rq, meths, im, pf)
    # ---- O2: every allocation / deallocation site is covered by an ownership rule
    for f, n in new_sites:
        if n['l'] in covered_new:
            ctx.ob('C19.O2', 'new-site|%s|%s' % (f.q, n['l']), True, n['l'], nontrivial=False)
    done_local = set()
    for f, n in new_sites:
        if n['l'] in covered_new or (f.q, f.sig) in done_local:
            continue
        done_local.add((f.q, f.sig))
        for loc, v, why in local_new_sites(prog, f, f.scalar or 'double'):
            ctx.ob('C19.O2', 'new-site|%s|%s' % (f.q, loc), v, loc, 'new-expression in %s: %s' % (f.q, why), nontrivial=False)
    for f, n in del_sites:
        cov = n['l'] in covered_del and not n.get('array')
        ctx.ob('C19.O2', 'delete-site|%s|%s' % (f.q, n['l']), True if cov else None, n['l'],
               'delete-expression in %s is not executed by the ownership simulation of init_mms / masa_printid nor part of ~MasterMS: not decided' % f.q,
               sample='%s deletes %s' % (f.n, show(n['e'])))
    ctx.floor('new_sites', len(new_sites), 2 * 30)
    ctx.floor('delete_sites', len(del_sites), 2 * 2)
    # ---- O1 (removal): an entry point that takes an entry out of the registry outside init_mms releases the entry's object
    from .. import api as apimod
    from .. import ownership as own_
    for scalar in cat.SCALARS:
        sc = 'ld' if scalar == 'long double' else 'd'
        regs_ = apimod.registry_globals(prog)
        mp_ = regs_[scalar] + '._master_map'
        for f in apimod.api_functions(prog, scalar):
            if not f.where.startswith('src/masa_core.cpp'):
                continue
            E_, paths_ = apimod.evaluate(prog, f, scalar)
            stacks = E_.trace.write_stacks.get(mp_, ())
            if not stacks or all(any(q_.split('::')[-1] == 'init_mms' for q_ in st_) for st_ in stacks):
                continue
            leaks, rec = [], True
            for rp in own_.removal_paths(prog, f, scalar):
                pr_, lk_, ok_ = own_.check_removal(rp)
                rec = rec and ok_
                leaks += lk_
            ctx.ob('C19.O1', 'removal|%s|%s' % (f.n, sc), (not leaks) if (rec or leaks) else None, f.where,
                   '%s: %s' % (f.n, '; '.join(sorted(set(leaks))[:2])) if leaks else '%s changes the registry in a way the removal rule does not recognise: not decided' % f.n,
                   sample='%s: every entry removed from the registry has its object deleted on the same path' % f.n)
    for scalar in cat.SCALARS:
        sc = 'ld' if scalar == 'long double' else 'd'
        rq, meths, im, pf = per_scalar[scalar]
        # ---- O3
        B = cat.BASE % scalar
        ctors = [f for f in prog.methods_of(B) if f.get('ctor')]
        for m in ('num_vars', 'num_vec', 'dummy'):
            assigned = any(any(n.get('k') == 'bin' and n['op'] == '=' and is_this_member(n['a'], m) for n in walk(c.body)) or
                           any(i.get('member') == m and i.get('written') for i in c.inits) for c in ctors)
            read = any(n.get('k') == 'member' and n['n'] == m and n.get('rec') == B for f in prog.functions for n in walk(f.body))
            fld = [x for x in prog.records[B]['fields'] if x['n'] == m]
            ctx.ob('C19.O3', '%s|%s' % (m, sc), assigned or not read, fld[0]['l'] if fld else B, 'member %s is read but never assigned by the constructor' % m, sample='%s assigned in the constructor' % m)
        # ---- O4: every element of vararr / vecarr that a method of the store touches is selected by the mapped value of an
        # iterator of the corresponding map: find(key) on a path that knows the key is registered, or the loop iterator of a
        # whole-map traversal.  Decided on the evaluated paths (helpers inlined), not on the subscript expressions.
        from .c11 import mapped_index
        from ..ownership import lookup_fact
        n_idx = 0
        in_step = {}
        this_cls = {}
        for f in prog.methods_of(B):
            if f.get('ctor') or f.get('dtor') or f.get('virt') and f.n.startswith('eval_'):
                continue
            if not any(n.get('k') == 'member' and n.get('n') in ('vararr', 'vecarr', 'varmap', 'vecmap') for n in walk(f.body)) and \
                    not any(n.get('k') == 'call' and n.get('inrepo') for n in walk(f.body)):
                continue
            E = terms.Evaluator(prog, scalar=scalar, noreturn=('masa_exit',), opaque=('return_name',))
            E.unroll_paths = True
            E.assume_nonnull = ('vararr', 'vecarr')
            try:
                outs = E.run(f)
            except RecursionError:
                continue
            bad = []
            undecided = []
            seen_here = 0
            for o in list(outs) + [p_ for p_ in E.trace.exit_paths if p_ not in outs]:
                ts = [(o.ret, ())] if o.ret is not None else []
                ts += list(terms_with_loops(o.events))
                ts += [(c_, ()) for c_ in o.conds] + [(v_, ()) for v_ in o.mem.values()]
                for t, stack in ts:
                    for st in (terms.subterms(t) if isinstance(t, tuple) and t and isinstance(t[0], str) else ()):
                        if st[0] == 'elem' and st[1][0] == 'sym' and st[1][1] in ('vararr', 'vecarr'):
                            seen_here += 1
                            mp = 'varmap' if st[1][1] == 'vararr' else 'vecmap'
                            idx = st[2]
                            if mapped_index(idx, mp, loopvar=True):
                                continue
                            cb = counter_bound(idx, stack, st[1][1])
                            if cb is not None and cb[0] == 'size':
                                continue        # 0 <= i < arr.size() by the loop condition
                            if cb is not None and cb[0] == 'member':
                                key_ = (cb[1], st[1][1])
                                if key_ not in in_step:
                                    in_step[key_] = counter_in_step(prog, B, cb[1], st[1][1])
                                ok_, why_, off_rec = in_step[key_]
                                if ok_ is False and off_rec is not None:
                                    # the function that breaks the invariant does so for objects of its own class only: it matters
                                    # if this method can run on such an object
                                    if f.q not in this_cls:
                                        this_cls[f.q] = this_classes(prog, f, B)
                                    tc = this_cls[f.q]
                                    if tc != 'ALL' and not any(off_rec == k_ or off_rec in derived_of(prog, k_) for k_ in tc):
                                        ok_ = True
                                if ok_:
                                    continue    # i <= counter == arr.size() - 1, an invariant of every function that touches either
                                if ok_ is None:
                                    undecided.append('%s[%s]: bounded by %s, whose relation to %s.size() is not decided: %s' % (st[1][1], terms.fmt(idx)[:30], cb[1], st[1][1], why_))
                                    continue
                                bad.append('%s[%s]: the index runs up to %s, but %s is not kept equal to %s.size()-1: %s' % (st[1][1], terms.fmt(idx)[:30], cb[1], cb[1], st[1][1], why_))
                                continue
                            keyt = None
                            if idx[0] == 'field' and idx[2] == 'second' and idx[1][0] == 'call' and idx[1][1] in ('op:operator*', 'op:operator->') and len(idx[1][2]) == 1:
                                it = idx[1][2][0]
                                if it[0] == 'mcall' and it[1] == ('sym', mp) and it[2] == 'find' and len(it[3]) == 1:
                                    keyt = it[3][0]
                            if keyt is None:
                                bad.append('%s[%s]: the index is not the mapped value of a %s iterator' % (st[1][1], terms.fmt(idx)[:50], mp))
                            elif not any(lf is not None and lf[0] == keyt and lf[1] is True for lf in [lookup_fact(c, mp) for c in o.conds]):
                                bad.append('%s[%s.find(%s)->second] on a path that has not established that the name is registered' % (st[1][1], mp, terms.fmt(keyt)[:20]))
            if seen_here:
                n_idx += 1
                ctx.ob('C19.O4', '%s|%s|%s' % (f.n, f.sig, sc), (not bad) if (bad or not undecided) else None, f.where,
                       '%s: %s' % (f.n, '; '.join(sorted(set(bad or undecided))[:2])),
                       sample='%s: every vararr/vecarr element is selected by a checked map iterator or a counter bounded by the array size' % f.n)
        ctx.floor('store_methods_indexing_the_arrays<%s>' % scalar, n_idx, 2)
    # ---------------- O5 (C boundary) - the wrappers are <double> only
    wr = {f.n: f for f in prog.fn_by_tu.get('cmasa.cpp', []) if f.get('externc')}
    for name, fnc in (('masa_get_name', c17.check_get_name), ('masa_set_array', c17.check_set_array), ('masa_get_array', c17.check_get_array)):
        f = wr.get(name)
        ctx.require(f is not None, 'extern "C" %s not found' % name)
        E_, paths_ = c17.wrapper_eval(prog, f)
        ret_paths = [(o, c17.flat(o.events)) for o in paths_ if o.kind != 'exit']
        ctx.require(any(e[0] == 'call' for o, evs in ret_paths for e in evs), '%s calls no MASA:: function' % name)
        ok, why = fnc(f, ret_paths)
        ctx.ob('C19.O5', name, ok, f.where, why, sample='%s: buffer discipline' % name)
    # every char*/double* parameter site is covered by a rule
    ptr_params = [(f.n, p['n']) for f in wr.values() for p in f.params if p['t'] in ('char *', 'double *', 'int *')]
    covered = {'masa_get_name', 'masa_set_array', 'masa_get_array', 'masa_get_dimension'}
    unc = [x for x in ptr_params if x[0] not in covered]
    ctx.ob('C19.O5', 'all-pointer-parameters-covered', not unc, 'src/cmasa.cpp', 'extern "C" functions with writable pointer parameters and no rule: %s' % unc,
           sample='%d writable pointer parameters, all in %s' % (len(ptr_params), sorted(covered)), nontrivial=False)
    # ---------------- O6 element loops
    scalar = 'double'
    fn, ents, other = cat.entries(prog, scalar)
    n_sub = 0
    from .c14 import init_var_of
    for cls, _, _ in ents:
        short = cat.short(cls)
        vec_members = set()
        for r_ in prog.base_chain(cls):
            if r_.startswith('MASA::manufactured_solution<'):
                continue
            for fld in prog.records.get(r_, {}).get('fields', []):
                if 'std::vector<' in str(fld.get('t', '')):
                    vec_members.add(fld['n'])
        if not vec_members:
            continue
        # init_var works on vectors of constant length: every subscript is evaluated concretely (vector model of sa/terms.py)
        iv = init_var_of(prog, cls)
        if iv is not None:
            regs = cat.registrations(prog, cls)
            regmap = {r['name']: '.'.join(r['path'][1:]) for r in regs if r['name'] is not None and r['path'] and r['path'][0] == 'this'}
            E = terms.Evaluator(prog, dyn_class=cls, scalar=scalar, regmap=regmap, opaque=('register_var', 'register_vec'))
            E.vecmodel = True
            E.run(iv)
            for loc, st in sorted(E.trace.vec_access.items(), key=lambda z: str(z[0])):
                n_sub += 1
                ok = True if st <= {'ok'} else (False if 'oob' in st else None)
                ctx.ob('C19.O6', '%s::init_var|%s' % (short, loc), ok, loc,
                       '%s::init_var: subscript at %s %s' % (short, loc, 'is outside [0, size) for the length the vector has at that point' if ok is False else
                                                          'is not evaluated with a constant index and length: not decided'),
                       sample='%s::init_var subscript at %s in range' % (short, loc))
        # evaluators: every element of a member vector read or written inside a loop is indexed by the loop variable, and the
        # loop is bounded by the size of that vector (or of one that the path condition says has the same size)
        for name, sig, f in evaluator_overrides(prog, cls, scalar):
            E = terms.Evaluator(prog, dyn_class=cls, scalar=scalar)
            E.unroll_paths = True
            try:
                outs = E.run(f)
            except RecursionError:
                continue
            verdicts = {}
            for o in list(outs) + [p_ for p_ in E.trace.exit_paths if p_ not in outs]:
                # equal-size facts of this path
                eq = {}

                def find(x):
                    while eq.get(x, x) != x:
                        x = eq[x]
                    return x

                def size_of(t):
                    t = c17.untrunc(t)
                    if t[0] == 'size' and t[1][0] == 'sym':
                        return t[1][1]
                    return None

                def learn(c, neg):
                    while c[0] == 'not':
                        neg = not neg
                        c = c[1]
                    if c[0] == 'or' and neg:
                        learn(c[1], True)
                        learn(c[2], True)
                    elif c[0] == 'and' and not neg:
                        learn(c[1], False)
                        learn(c[2], False)
                    elif c[0] == 'cmp' and ((c[1] == '!=' and neg) or (c[1] == '==' and not neg)):
                        a_, b_ = size_of(c[2]), size_of(c[3])
                        if a_ and b_:
                            eq[find(a_)] = find(b_)
                for c in o.conds:
                    learn(c, False)

                def visit(evs):
                    for e in evs:
                        if e[0] != 'loop':
                            continue
                        cond = e[1][0]
                        ivar = bound = None
                        if cond is not None and cond[0] == 'cmp' and cond[1] in ('<', '!=') and cond[2][0] == 'call' and cond[2][1] == 'loopvar':
                            ivar, bound = cond[2], cond[3]
                        for kind, conds, sub in e[1][1]:
                            visit(sub)
                            ts = []
                            for x in sub:
                                for y in x[1:]:
                                    if isinstance(y, tuple):
                                        ts.append(y)
                            ts += list(conds)
                            for t in ts:
                                for st in (terms.subterms(t) if isinstance(t, tuple) and t and isinstance(t[0], str) else ()):
                                    if not (st[0] == 'elem' and st[1][0] == 'sym' and st[1][1] in vec_members):
                                        continue
                                    V, idx = st[1][1], st[2]
                                    key = (e[2], V, terms.fmt(idx)[:40])
                                    off = 0
                                    base = idx
                                    if idx[0] == 'add' and len(idx[1]) == 2 and c17.untrunc(idx[1][1])[0] == 'num':
                                        base, off = idx[1][0], int(c17.untrunc(idx[1][1])[1])
                                    if ivar is None or c17.untrunc(base) != ivar:
                                        verdicts.setdefault(key, (None, 'the index `%s` is not the variable of the enclosing loop: not decided' % terms.fmt(idx)[:40]))
                                        continue
                                    start = c17.untrunc(ivar[2][0])
                                    if not (start[0] == 'num' and int(start[1]) + off >= 0 and off <= 0):
                                        verdicts[key] = (False, 'index range starts at %s%+d' % (terms.fmt(start), off))
                                        continue
                                    W = size_of(bound)
                                    if W is not None and (W == V or find(W) == find(V)):
                                        verdicts.setdefault(key, (True, ''))
                                    elif W is not None:
                                        verdicts[key] = (False, 'is bounded by %s.size(), a different container, without an equal-size guard on the path' % W)
                                    elif not any(z[0] == 'size' for z in terms.subterms(bound)):
                                        verdicts[key] = (False, 'loop bound `%s` is not the size of the container' % terms.fmt(bound)[:40])
                                    else:
                                        verdicts.setdefault(key, (None, 'loop bound `%s` not recognised: not decided' % terms.fmt(bound)[:40]))
                visit(o.events)
            for (loc, V, ix), (ok, why) in sorted(verdicts.items(), key=str):
                n_sub += 1
                ctx.ob('C19.O6', '%s::%s|%s|%s[%s]' % (short, name, loc, V, ix), ok, loc, '%s::%s: %s[%s] %s' % (short, name, V, ix, why),
                       sample='%s::%s %s[%s] bounded by its size' % (short, name, V, ix))
    ctx.floor('member_vector_subscripts', n_sub, 0)


def guard_sets(prog, cls, f):
    """vectors proven equal-sized by a dominating `if (check_vec() == 1) return` style guard"""
    groups = []
    st = flat_stmts(f.body)
    for s in st:
        if s.get('k') == 'for':
            break
        if s.get('k') == 'if':
            th = flat_stmts(s['then'])
            if th and th[-1].get('k') == 'return':
                for c in calls(s['c']):
                    if c.get('inrepo'):
                        g = prog.fn(c['q'], c['sig'])
                        if g:
                            names = set()
                            for n in calls(g[0].body, name='size'):
                                o = strip(n.get('obj') or {}, casts=True)
                                if o.get('k') == 'member':
                                    names.add(o['n'])
                            if len(names) >= 2:
                                groups.append(names)
    return groups


def subscript_bounded(f, c, v, groups):
    idx = strip(c['args'][1], casts=True)
    # constant index after a resize(constant) in the same function
    iv = int_value(idx)
    if iv is not None:
        for r in calls(f.body, name='resize'):
            if is_this_member(r.get('obj'), v):
                return True, ''   # sized in this function; the constant is checked by forward substitution in C14.K4
        return False, 'constant index without a resize in the same function'
    # find enclosing for loop whose variable is the index (or index - 1 with loop starting at 1)
    base = idx
    off = 0
    if idx.get('k') == 'bin' and idx['op'] in ('-', '+') and int_value(idx['b']) is not None:
        base = strip(idx['a'], casts=True)
        off = int_value(idx['b']) * (1 if idx['op'] == '+' else -1)
    if base.get('k') != 'local':
        return False, 'index is not a loop variable'
    for l in nodes(f.body, 'for'):
        if not any(n is c for n in walk(l['body'])):
            continue
        init = l.get('init')
        if not (init and init.get('k') == 'decl' and len(init['vars']) == 1 and init['vars'][0]['id'] == base['id']):
            continue
        start = int_value(init['vars'][0].get('init'))
        cnd = strip(l['c'], casts=True)
        if not (cnd.get('k') == 'bin' and cnd['op'] in ('<', '!=') and is_local(cnd['a'], base['id'], casts=True)):
            return False, 'loop condition is not i < size()'
        b = strip(cnd['b'], casts=True)
        if not (b.get('k') == 'call' and b.get('n') == 'size'):
            return False, 'loop bound `%s` is not a size()' % show(cnd['b'])
        w = strip(b.get('obj') or {}, casts=True)
        wn = w.get('n') if w.get('k') == 'member' else None
        if start is None or start + off < 0 or off > 0:
            return False, 'index range starts at %s%+d' % (start, off)
        if wn == v:
            return True, ''
        for g in groups:
            if wn in g and v in g:
                return True, ''
        # both containers resized with the same argument earlier in this function
        rs = {}
        for r in calls(f.body, name='resize'):
            o = strip(r.get('obj') or {}, casts=True)
            if o.get('k') == 'member' and r['args']:
                rs.setdefault(o['n'], set()).add(show(r['args'][0]))
        if v in rs and wn in rs and len(rs[v]) == 1 and rs[v] == rs[wn]:
            return True, ''
        return False, 'is bounded by %s.size(), a different container, without an equal-size guard' % wn
    return False, 'no enclosing index loop'
