"""C19 - memory safety: the structural obligations (DESIGN 2, C19).

Only the allocation, initialisation and indexing sites that exist in the
library are decided; every new / delete / container-subscript site is
enumerated from the IR and a site without a rule is an analysis-broken exit.
"""
from .. import terms, nf
from .. import catalogue as cat
from ..ast import strip, flat_stmts, calls, nodes, is_param, is_local, is_this_member, full_container_loop, assigned_in, show, int_value
from ..ir import walk
from ..report import AnalysisBroken
from . import c17
from .c10 import evaluator_overrides
from .c09 import reachable

LEVEL = 'other'


def loop_over_vector(loop, lid):
    """index loop `for (i = 0; i != / < V.size(); ++i)` over local vector lid -> index var id"""
    if loop.get('k') != 'for':
        return None
    init = loop.get('init')
    if not (init and init.get('k') == 'decl' and len(init['vars']) == 1 and int_value(init['vars'][0].get('init')) == 0):
        return None
    iv = init['vars'][0]['id']
    c = strip(loop['c'], casts=True)
    if not (c.get('k') == 'bin' and c['op'] in ('!=', '<') and is_local(c['a'], iv, casts=True)):
        return None
    b = strip(c['b'], casts=True)
    if not (b.get('k') == 'call' and b.get('n') == 'size' and is_local(b.get('obj'), lid)):
        return None
    inc = strip(loop['inc'], casts=True)
    if not (inc.get('k') == 'un' and inc['op'] == '++' and is_local(inc['e'], iv)):
        return None
    return iv


def elem_of(e, vec_id, idx_id):
    e = strip(e, casts=True)
    return e.get('k') == 'call' and e.get('n') == 'operator[]' and is_local(e['args'][0], vec_id) and is_local(e['args'][1], idx_id, casts=True)


def ownership_init_mms(ctx, prog, im, sc):
    """O1 on init_mms: every candidate is deleted or installed exactly once on every path that returns normally"""
    st = flat_stmts(im.body)
    vec = None
    for s in st:
        if s.get('k') == 'decl':
            for v in s['vars']:
                if 'std::vector<MASA::manufactured_solution<' in v['t']:
                    vec = v['id']
    if vec is None:
        raise AnalysisBroken('init_mms: candidate vector not found')
    loops = [l for l in st if l.get('k') == 'for' and loop_over_vector(l, vec) is not None]
    if len(loops) < 1:
        raise AnalysisBroken('init_mms: no index loop over the candidate vector (ownership idiom not recognised)')
    main = loops[0]
    iv = loop_over_vector(main, vec)
    E = terms.Evaluator(prog, noreturn=('masa_exit',), opaque=('get_list_mms', 'masa_map', 'return_name', 'list_mms'))
    E.run(im)
    # path enumeration of the loop body on the IR: use the evaluator's loop event
    outs = E.run(im)
    body_paths = None
    for o in outs + E.trace.exit_paths:
        for e in o.events:
            if e[0] == 'loop' and e[2] == main.get('l'):
                body_paths = e[1][1]
    if body_paths is None:
        # the loop event is attached to the path that continues after the loop
        for o in outs:
            for e in o.events:
                if e[0] == 'loop':
                    body_paths = e[1][1]
    # the evaluator records only falling body paths in the loop event; returning paths are separate outs
    ret_in_loop = [o for o in outs if o.kind == 'ret' and any(c == ('sym', '@loop:cond') for c in o.conds)]
    problems = []
    if ret_in_loop:
        # accepted only if a clean-up loop over the remaining candidates precedes the return
        for o in ret_in_loop:
            dels = [e for e in o.events if e[0] == 'loop' and any(x[0] == 'delete' for k_, c_, evs in e[1][1] for x in evs)]
            if not dels:
                problems.append('returns from inside the candidate loop at the first match without deleting the remaining candidates: every masa_init leaks the objects after the match')
    # each falling body path must delete or install the current element exactly once
    for kind, conds, evs in (body_paths or []):
        d = [e for e in evs if e[0] == 'delete']
        w = [e for e in evs if e[0] == 'write' and e[1] == '_master_map']
        if kind == 'fall' and len(d) + len(w) != 1:
            problems.append('a path through the candidate loop neither deletes nor installs the current candidate (or does both)')
    return problems, vec, iv


def run(ctx, prog):
    ctx.rule('C19.O1', 'ownership of catalogue objects: every object allocated by get_list_mms is, on every normally returning path of init_mms / masa_printid, deleted or installed in _master_map exactly once; '
             'installing under an existing key deletes the previous object first; ~MasterMS deletes every mapped object')
    ctx.rule('C19.O2', 'delete is applied only at the enumerated sites (init_mms, masa_printid, ~MasterMS), to vector elements / map values, never twice on a path')
    ctx.rule('C19.O3', 'every scalar data member of manufactured_solution that is read is assigned by its constructor (num_vars, num_vec, dummy)')
    ctx.rule('C19.O4', 'vararr / vecarr are subscripted only by the mapped value of an iterator of the corresponding map (find result checked against end(), or a whole-map loop)')
    ctx.rule('C19.O5', "C boundary: an output buffer is never read before it is written; masa_set_array reads exactly [0,*n); masa_get_array writes array[i] for i in [0,size)")
    ctx.rule('C19.O6', 'every element loop over a member vector in code reachable from an evaluator or init_var is bounded by the size of the container it indexes (or by a dominating equal-size guard)')
    ctx.explanation = ('Structural necessary conditions at the enumerated allocation, initialisation and indexing sites. The dynamic claim (sanitizers over all API histories) is not decided; '
                       'what is decided holds for every history because it is a path property of the code.')
    # ---------------- site enumeration
    new_sites, del_sites = [], []
    for f in prog.functions:
        for n in walk(f.body):
            if n.get('k') == 'new':
                new_sites.append((f, n))
            elif n.get('k') == 'delete':
                del_sites.append((f, n))
    allowed_new = {'get_list_mms'}
    allowed_del = {'init_mms', 'masa_printid', '~MasterMS'}
    for f, n in new_sites:
        ctx.ob('C19.O2', 'new-site|%s|%s' % (f.q, n['l']), f.n in allowed_new, n['l'], 'new-expression in %s: no ownership rule covers this site' % f.q, nontrivial=False)
    for f, n in del_sites:
        ctx.ob('C19.O2', 'delete-site|%s|%s' % (f.q, n['l']), f.n in allowed_del and not n.get('array'), n['l'],
               'delete-expression in %s: no ownership rule covers this site' % f.q, sample='%s deletes %s' % (f.n, show(n['e'])))
    ctx.floor('new_sites', len(new_sites), 2 * 37)
    ctx.floor('delete_sites', len(del_sites), 2 * 3)
    for scalar in cat.SCALARS:
        sc = 'ld' if scalar == 'long double' else 'd'
        rq = [r for r in prog.records if r.endswith('MasterMS<%s>' % scalar)][0]
        meths = {f.n: f for f in prog.methods_of(rq)}
        im = meths['init_mms']
        # ---- O1 init_mms
        problems, vec, iv = ownership_init_mms(ctx, prog, im, sc)
        ctx.ob('C19.O1', 'init_mms-candidates|' + sc, not problems, im.where, 'init_mms: ' + '; '.join(problems),
               sample='every candidate deleted or installed exactly once')
        # overwrite of an existing key
        E = terms.Evaluator(prog, scalar=scalar, noreturn=('masa_exit',), opaque=('get_list_mms', 'masa_map', 'return_name', 'list_mms'))
        outs = E.run(im)
        bad = []
        key = im.params[0]['n']
        for o in outs:
            evs = []

            def flat(es):
                for e in es:
                    if e[0] == 'loop':
                        for k_, c_, sub in e[1][1]:
                            flat(sub)
                    else:
                        evs.append(e)
            flat(o.events)
            for i, e in enumerate(evs):
                if e[0] == 'write' and e[1] == '_master_map':
                    before = evs[:i]
                    freed = False
                    for b in before:
                        if b[0] == 'delete' and '_master_map' in terms.fmt(b[1]) and key in terms.fmt(b[1]):
                            freed = True
                        if b[0] == 'write' and b[1] == '_master_map':
                            pass
                    # also accepted: the path condition proves the key is absent (find(key) == end())
                    def is_find_end(c, op):
                        if c[0] == 'call' and c[1] == 'op:operator' + op and len(c[2]) == 2:
                            a, b_ = c[2]
                            return a[0] == 'mcall' and a[1] == ('sym', '_master_map') and a[2] == 'find' and a[3] == (('sym', key),) and \
                                b_[0] == 'mcall' and b_[1] == ('sym', '_master_map') and b_[2] in ('end', 'cend')
                        return False
                    absent = any(is_find_end(c, '==') or (c[0] == 'not' and is_find_end(c[1], '!=')) for c in o.conds)
                    if not freed and not absent:
                        bad.append(e[2])
        # a registered object that is deleted must have its map entry replaced before the function is left (return or fatal exit)
        dangling = []
        for o in outs + E.trace.exit_paths:
            evs = []

            def flat2(es):
                for e in es:
                    if e[0] == 'loop':
                        for k_, c_, sub in e[1][1]:
                            if k_ in ('fall', 'cont'):
                                flat2(sub)
                    else:
                        evs.append(e)
            flat2(o.events)
            for i, e in enumerate(evs):
                if e[0] == 'delete' and '_master_map' in terms.fmt(e[1]):
                    if not any(x[0] == 'write' and x[1] == '_master_map' for x in evs[i + 1:]):
                        dangling.append((e[2], o.kind))
        ctx.ob('C19.O1', 'init_mms-no-dangling-entry|' + sc, not dangling, im.where,
               'init_mms deletes a registered solution at %s and can leave the function (%s) without replacing its map entry: dangling pointer, later use-after-free / double delete' % (
                   dangling[0][0] if dangling else '', 'fatal exit' if dangling and dangling[0][1] == 'exit' else 'return'),
               sample='every deleted registered object has its entry replaced on the same path')
        ctx.ob('C19.O1', 'init_mms-overwrite|' + sc, not bad, im.where,
               'init_mms overwrites _master_map[%s] at %s without deleting the object previously registered under that handle: re-initialising a handle leaks it' % (key, bad[:1]),
               sample='old object deleted before the map entry is replaced')
        # ---- O1 destructor
        d = meths.get('~MasterMS')
        ok = False
        if d is not None:
            for l in nodes(d.body, 'for'):
                it = full_container_loop(l, lambda o: is_this_member(o, '_master_map'))
                if it is not None and not assigned_in(l['body'], it):
                    dl = [n for n in nodes(l['body'], 'delete')]
                    if len(dl) == 1:
                        t = strip(dl[0]['e'], casts=True)
                        ok = t.get('k') == 'member' and t['n'] == 'second'
        ctx.ob('C19.O1', 'destructor|' + sc, ok, d.where if d else prog.records[rq]['l'], '~MasterMS does not delete every mapped object', sample='for it in _master_map: delete it->second')
        # ---- O1 printid
        pf = [f for f in prog.functions if f.q == 'MASA::masa_printid<%s>' % scalar]
        ctx.require(len(pf) == 1, 'masa_printid<%s> not found' % scalar)
        pf = pf[0]
        ok = False
        vec_id = None
        for s in flat_stmts(pf.body):
            if s.get('k') == 'decl':
                for v in s['vars']:
                    if 'std::vector<MASA::manufactured_solution<' in v['t']:
                        vec_id = v['id']
        for l in nodes(pf.body, 'for'):
            it = full_container_loop(l, lambda o: is_local(o, vec_id))
            if it is not None and not assigned_in(l['body'], it):
                body = flat_stmts(l['body'])
                dl = [s for s in body if strip(s).get('k') == 'delete']
                early = [n for n in walk(l['body']) if n.get('k') in ('return', 'break', 'continue')]
                if len(dl) == 1 and not early:
                    t = strip(dl[0]['e'], casts=True)
                    ok = t.get('k') == 'call' and t.get('n') == 'operator*' and is_local(t['args'][0], it)
        ctx.ob('C19.O1', 'printid|' + sc, ok, pf.where, 'masa_printid does not delete every candidate exactly once', sample='for it in anim: delete *it')
        # ---- O2 no double delete on a path
        for f in (im, pf):
            E = terms.Evaluator(prog, scalar=scalar, noreturn=('masa_exit',), opaque=('get_list_mms', 'masa_map', 'return_name', 'list_mms'))
            outs = E.run(f)
            dbl = False
            for o in outs:
                def chk(es):
                    seen = []
                    for e in es:
                        if e[0] == 'delete':
                            if e[1] in seen:
                                return True
                            seen.append(e[1])
                        if e[0] == 'loop':
                            for k_, c_, sub in e[1][1]:
                                if chk(sub):
                                    return True
                    return False
                dbl = dbl or chk(o.events)
            ctx.ob('C19.O2', 'no-double-delete|%s|%s' % (f.n, sc), not dbl, f.where, '%s deletes the same expression twice on one path' % f.n, sample='%s: at most one delete per object per path' % f.n)
        # ---- O3
        B = cat.BASE % scalar
        ctors = [f for f in prog.methods_of(B) if f.get('ctor')]
        for m in ('num_vars', 'num_vec', 'dummy'):
            assigned = any(any(n.get('k') == 'bin' and n['op'] == '=' and is_this_member(n['a'], m) for n in walk(c.body)) or
                           any(i.get('member') == m and i.get('written') for i in c.inits) for c in ctors)
            read = any(n.get('k') == 'member' and n['n'] == m and n.get('rec') == B for f in prog.functions for n in walk(f.body))
            fld = [x for x in prog.records[B]['fields'] if x['n'] == m]
            ctx.ob('C19.O3', '%s|%s' % (m, sc), assigned or not read, fld[0]['l'] if fld else B, 'member %s is read but never assigned by the constructor' % m, sample='%s assigned in the constructor' % m)
        # ---- O4
        n_idx = 0
        for f in prog.functions:
            if f.get('rec') != B:
                continue
            for c in calls(f.body, name='operator[]'):
                a0 = strip(c['args'][0], casts=True)
                if not (a0.get('k') == 'member' and a0['n'] in ('vararr', 'vecarr')):
                    continue
                n_idx += 1
                mp = 'varmap' if a0['n'] == 'vararr' else 'vecmap'
                idx = strip(c['args'][1], casts=True)
                ok = False
                if idx.get('k') == 'member' and idx['n'] == 'second':
                    b = strip(idx['base'], casts=True)
                    if b.get('k') == 'call' and b.get('n') in ('operator->', 'operator*'):
                        it = strip(b['args'][0], casts=True)
                        if it.get('k') == 'local':
                            # all definitions of the iterator come from mp.find / mp.begin
                            srcs = []
                            for n in walk(f.body):
                                if n.get('k') == 'decl':
                                    for v in n['vars']:
                                        if v['id'] == it['id'] and v.get('init') is not None:
                                            srcs.append(v['init'])
                                if n.get('k') == 'call' and n.get('opcall') and n.get('n') == 'operator=' and is_local(n['args'][0], it['id']):
                                    srcs.append(n['args'][1])
                            good = []
                            for s_ in srcs:
                                s_ = strip(s_, casts=True)
                                while s_.get('k') == 'construct' and len(s_['args']) == 1:
                                    s_ = strip(s_['args'][0], casts=True)
                                if s_.get('k') == 'construct' and not s_['args']:
                                    continue  # default-constructed, assigned later
                                good.append(s_.get('k') == 'call' and s_.get('n') in ('find', 'begin', 'cbegin') and is_this_member(s_.get('obj'), mp))
                            ok = bool(good) and all(good)
                ctx.ob('C19.O4', '%s|%s|%s' % (f.n, c['l'], sc), ok, c['l'], '%s subscripts %s with `%s`, not the mapped value of a %s iterator' % (f.n, a0['n'], show(c['args'][1]), mp),
                       sample='%s: %s[it->second]' % (f.n, a0['n']))
        ctx.floor('vararr_vecarr_subscripts<%s>' % scalar, n_idx, 9)
    # ---------------- O5 (C boundary) - the wrappers are <double> only
    wr = {f.n: f for f in prog.fn_by_tu.get('cmasa.cpp', []) if f.get('externc')}
    for name, fnc in (('masa_get_name', c17.check_get_name), ('masa_set_array', c17.check_set_array), ('masa_get_array', c17.check_get_array)):
        f = wr.get(name)
        ctx.require(f is not None, 'extern "C" %s not found' % name)
        mc = [c for c in calls(f.body) if (c.get('q') or '').startswith('MASA::')]
        ctx.require(len(mc) >= 1, '%s calls no MASA:: function' % name)
        ok, why = fnc(f, mc[0], flat_stmts(f.body))
        ctx.ob('C19.O5', name, ok, f.where, why, sample='%s: buffer discipline' % name)
    # every char*/double* parameter site is covered by a rule
    ptr_params = [(f.n, p['n']) for f in wr.values() for p in f.params if p['t'] in ('char *', 'double *', 'int *')]
    covered = {'masa_get_name', 'masa_set_array', 'masa_get_array', 'masa_get_dimension'}
    unc = [x for x in ptr_params if x[0] not in covered]
    ctx.ob('C19.O5', 'all-pointer-parameters-covered', not unc, 'src/cmasa.cpp', 'extern "C" functions with writable pointer parameters and no rule: %s' % unc,
           sample='%d writable pointer parameters, all in %s' % (len(ptr_params), sorted(covered)), nontrivial=False)
    # ---------------- O6 element loops
    scalar = 'double'
    fn, ents, other = cat.entries(prog, scalar)
    n_sub = 0
    from .c14 import init_var_of
    for cls, _, _ in ents:
        short = cat.short(cls)
        roots = [f for _, _, f in evaluator_overrides(prog, cls, scalar)]
        iv = init_var_of(prog, cls)
        if iv is not None:
            roots.append(iv)
        for (q, sig), f in reachable(prog, cls, roots).items():
            if not f.get('rec') or 'manufactured_solution<' in f.get('rec', '') and f.get('rec', '').startswith('MASA::manufactured_solution<'):
                continue
            subs = []
            for c in calls(f.body, name='operator[]'):
                a0 = strip(c['args'][0], casts=True)
                if a0.get('k') == 'member' and 'std::vector<' in str(a0.get('t', '')):
                    subs.append(c)
            if not subs:
                continue
            guard_groups = guard_sets(prog, cls, f)
            access = {}
            if iv is not None and f is iv:
                # init_var works on vectors of constant length: every subscript is evaluated concretely (vector model of sa/terms.py)
                regs = cat.registrations(prog, cls)
                regmap = {r['name']: '.'.join(r['path'][1:]) for r in regs if r['name'] is not None and r['path'] and r['path'][0] == 'this'}
                E = terms.Evaluator(prog, dyn_class=cls, scalar=scalar, regmap=regmap, opaque=('register_var', 'register_vec'))
                E.vecmodel = True
                E.run(iv)
                access = E.trace.vec_access
            for c in subs:
                n_sub += 1
                v = strip(c['args'][0], casts=True)['n']
                st = access.get(c['l'])
                if st and st <= {'ok'}:
                    ok, why = True, ''
                elif st and 'oob' in st:
                    ok, why = False, 'is outside [0, size) for the length the vector has at that point'
                else:
                    ok, why = subscript_bounded(f, c, v, guard_groups)
                ctx.ob('C19.O6', '%s::%s|%s' % (short, f.n, c['l']), ok, c['l'], '%s::%s: %s[%s] %s' % (short, f.n, v, show(c['args'][1]), why),
                       sample='%s::%s %s[%s] bounded' % (short, f.n, v, show(c['args'][1])))
    ctx.floor('member_vector_subscripts', n_sub, 3)


def guard_sets(prog, cls, f):
    """vectors proven equal-sized by a dominating `if (check_vec() == 1) return` style guard"""
    groups = []
    st = flat_stmts(f.body)
    for s in st:
        if s.get('k') == 'for':
            break
        if s.get('k') == 'if':
            th = flat_stmts(s['then'])
            if th and th[-1].get('k') == 'return':
                for c in calls(s['c']):
                    if c.get('inrepo'):
                        g = prog.fn(c['q'], c['sig'])
                        if g:
                            names = set()
                            for n in calls(g[0].body, name='size'):
                                o = strip(n.get('obj') or {}, casts=True)
                                if o.get('k') == 'member':
                                    names.add(o['n'])
                            if len(names) >= 2:
                                groups.append(names)
    return groups


def subscript_bounded(f, c, v, groups):
    idx = strip(c['args'][1], casts=True)
    # constant index after a resize(constant) in the same function
    iv = int_value(idx)
    if iv is not None:
        for r in calls(f.body, name='resize'):
            if is_this_member(r.get('obj'), v):
                return True, ''   # sized in this function; the constant is checked by forward substitution in C14.K4
        return False, 'constant index without a resize in the same function'
    # find enclosing for loop whose variable is the index (or index - 1 with loop starting at 1)
    base = idx
    off = 0
    if idx.get('k') == 'bin' and idx['op'] in ('-', '+') and int_value(idx['b']) is not None:
        base = strip(idx['a'], casts=True)
        off = int_value(idx['b']) * (1 if idx['op'] == '+' else -1)
    if base.get('k') != 'local':
        return False, 'index is not a loop variable'
    for l in nodes(f.body, 'for'):
        if not any(n is c for n in walk(l['body'])):
            continue
        init = l.get('init')
        if not (init and init.get('k') == 'decl' and len(init['vars']) == 1 and init['vars'][0]['id'] == base['id']):
            continue
        start = int_value(init['vars'][0].get('init'))
        cnd = strip(l['c'], casts=True)
        if not (cnd.get('k') == 'bin' and cnd['op'] in ('<', '!=') and is_local(cnd['a'], base['id'], casts=True)):
            return False, 'loop condition is not i < size()'
        b = strip(cnd['b'], casts=True)
        if not (b.get('k') == 'call' and b.get('n') == 'size'):
            return False, 'loop bound `%s` is not a size()' % show(cnd['b'])
        w = strip(b.get('obj') or {}, casts=True)
        wn = w.get('n') if w.get('k') == 'member' else None
        if start is None or start + off < 0 or off > 0:
            return False, 'index range starts at %s%+d' % (start, off)
        if wn == v:
            return True, ''
        for g in groups:
            if wn in g and v in g:
                return True, ''
        # both containers resized with the same argument earlier in this function
        rs = {}
        for r in calls(f.body, name='resize'):
            o = strip(r.get('obj') or {}, casts=True)
            if o.get('k') == 'member' and r['args']:
                rs.setdefault(o['n'], set()).add(show(r['args'][0]))
        if v in rs and wn in rs and len(rs[v]) == 1 and rs[v] == rs[wn]:
            return True, ''
        return False, 'is bounded by %s.size(), a different container, without an equal-size guard' % wn
    return False, 'no enclosing index loop'
