"""C04 - Laplace and Burgers model problems."""
from .. import residual as rs, poly
from .. import catalogue as cat
from ..report import AnalysisBroken

LEVEL = 'proof'
add, mul, d = poly.add, poly.mul, poly.diff


def run(ctx, prog):
    ctx.rule('C04.LAP', 'normal form of laplace_2d::eval_q_f equals d2/dx2 + d2/dy2 of eval_exact_phi')
    ctx.rule('C04.BUR', 'normal form of burgers_equation::eval_q_u/v(x,y,t) equals u_t + (uu)_x + (uv)_y and v_t + (uv)_x + (vv)_y of eval_exact_u/v(x,y,t)')
    ctx.rule('C04.STEADY', 'the two-argument exact fields equal the three-argument ones with every t-dependent summand removed')
    ctx.rule('C04.UNI', 'the long double instantiation has the same normal forms as the double one')
    ctx.explanation = 'Equality of canonical polynomial normal forms of source and residual operator applied to the exact fields: a proof for all parameters and points.'
    res = {}
    for scalar in cat.SCALARS:
        try:
            cls = 'MASA::laplace_2d<%s>' % scalar
            phi, pf = rs.evaluator_poly(prog, cls, scalar, 'eval_exact_phi', ['x', 'y'])
            f, ff = rs.evaluator_poly(prog, cls, scalar, 'eval_q_f', ['x', 'y'])
            ctx.require(phi is not None and f is not None, 'laplace_2d evaluators missing')
            cls = 'MASA::burgers_equation<%s>' % scalar
            u, uf = rs.evaluator_poly(prog, cls, scalar, 'eval_exact_u', ['x', 'y', 't'])
            v, vf = rs.evaluator_poly(prog, cls, scalar, 'eval_exact_v', ['x', 'y', 't'])
            u2, u2f = rs.evaluator_poly(prog, cls, scalar, 'eval_exact_u', ['x', 'y'])
            v2, v2f = rs.evaluator_poly(prog, cls, scalar, 'eval_exact_v', ['x', 'y'])
            qu, quf = rs.evaluator_poly(prog, cls, scalar, 'eval_q_u', ['x', 'y', 't'])
            qv, qvf = rs.evaluator_poly(prog, cls, scalar, 'eval_q_v', ['x', 'y', 't'])
            ctx.require(None not in (u, v, u2, v2, qu, qv), 'burgers_equation evaluators missing')
        except rs.Inconclusive as ex:
            raise AnalysisBroken(str(ex))
        res[scalar] = (phi, f, u, v, u2, v2, qu, qv)
        if scalar != 'double':
            continue
        rs.compare(ctx, 'C04.LAP', 'laplace_2d|f', f, add(d(d(phi, 'x'), 'x'), d(d(phi, 'y'), 'y')), ff.where, 'laplace_2d::eval_q_f')
        rs.compare(ctx, 'C04.BUR', 'burgers|u', qu, add(add(d(u, 't'), d(mul(u, u), 'x')), d(mul(u, v), 'y')), quf.where, 'burgers_equation::eval_q_u')
        rs.compare(ctx, 'C04.BUR', 'burgers|v', qv, add(add(d(v, 't'), d(mul(u, v), 'x')), d(mul(v, v), 'y')), qvf.where, 'burgers_equation::eval_q_v')

        def tfree(p):
            return {m: c for m, c in p.items() if not poly.depends({m: c}, 't')}
        rs.compare(ctx, 'C04.STEADY', 'burgers|exact_u/2', u2, tfree(u), u2f.where, 'burgers_equation::eval_exact_u(x,y)')
        rs.compare(ctx, 'C04.STEADY', 'burgers|exact_v/2', v2, tfree(v), v2f.where, 'burgers_equation::eval_exact_v(x,y)')
    ctx.ob('C04.UNI', 'laplace+burgers', res['double'] == res['long double'], '', 'double and long double instantiations are different expressions', sample='8 evaluators identical in both instantiations')
    ctx.trusted = ['clang 14 front end', 'tools/masa-ir', 'sa/terms.py', 'sa/poly.py', 'the three operator lines in sa/checks/c04.py']
