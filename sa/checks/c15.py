"""C15 - unimplemented evaluators return -1.33 and only print (DESIGN 2, C15)."""
import json
import os
import re
from fractions import Fraction
from ..ast import strip, flat_stmts, is_param, calls, show, nodes
from ..ir import walk, VERIF
from .. import catalogue as cat
from ..report import AnalysisBroken

LEVEL = 'other'

SPECIAL_SLOTS = {
    'masa_eval_central_moment': 'eval_cen_mom',
    'masa_eval_posterior_mean': 'eval_post_mean',
    'masa_eval_posterior_variance': 'eval_post_var',
    'masa_eval_source_boundary': 'eval_q_u_boundary',
    'masa_eval_likelyhood': 'eval_likelyhood',
    'masa_eval_loglikelyhood': 'eval_loglikelyhood',
    'masa_eval_prior': 'eval_prior',
    'masa_eval_posterior': 'eval_posterior',
}


def slot_for(api_name):
    if api_name in SPECIAL_SLOTS:
        return SPECIAL_SLOTS[api_name]
    m = re.match(r'masa_eval_(source|exact|grad)_(\w+)$', api_name)
    if not m:
        return None
    return {'source': 'eval_q_', 'exact': 'eval_exact_', 'grad': 'eval_g_'}[m.group(1)] + m.group(2)


def cout_chain(e):
    """if e is std::cout << a << b ..., return the list of inserted operands, else None"""
    e = strip(e)
    ops = []
    while isinstance(e, dict) and e.get('k') == 'call' and e.get('n') == 'operator<<':
        if e.get('opcall'):
            lhs, rhs = e['args'][0], e['args'][1]
        else:
            lhs, rhs = e.get('obj'), e['args'][0]
        ops.append(strip(rhs, casts=True))
        e = strip(lhs)
    if isinstance(e, dict) and e.get('k') == 'global' and e.get('q') == 'std::cout':
        return list(reversed(ops))
    return None


def literal_value(e):
    """Fraction of a (possibly negated) numeric literal, by its source spelling"""
    e = strip(e, casts=True)
    neg = False
    while isinstance(e, dict) and e.get('k') == 'un' and e['op'] in '+-':
        if e['op'] == '-':
            neg = not neg
        e = strip(e['e'], casts=True)
    if not isinstance(e, dict):
        return None
    if e.get('k') == 'float':
        sp = e['sp'].rstrip('fFlL')
        try:
            v = Fraction(sp)
        except (ValueError, ZeroDivisionError):
            return None
    elif e.get('k') == 'int':
        v = Fraction(int(e['v']))
    else:
        return None
    return -v if neg else v


def stub_shape(fn, prog=None, scalar='double'):
    """(ok, why): evaluated with its helpers inlined, the stub has one path; its only effects are insertions of string
    literals into std::cout, one of them containing the marker; it returns the literal -1.33 converted to Scalar"""
    from .. import terms
    if prog is None:
        return False, 'no program'
    E = terms.Evaluator(prog, scalar=scalar, noreturn=('masa_exit',))
    try:
        outs = E.run(fn)
    except RecursionError:
        return None, 'stub too deep'
    paths = list(outs) + [p for p in E.trace.exit_paths if p not in outs]
    if len(paths) != 1 or paths[0].kind != 'ret':
        return False, 'has %d paths (or a path that does not return)' % len(paths)
    o = paths[0]
    text = ''
    for e in o.events:
        if e[0] == 'print':
            text += e[1]
        elif e[0] == 'print-value':
            return False, 'stub prints a non-literal operand `%s`' % terms.fmt(e[1])[:50]
        elif e[0] in ('write', 'write-through', 'store', 'new', 'delete', 'terminate', 'throw', 'loop', 'libcall', 'branch'):
            return False, 'stub has another effect (%s at %s)' % (e[0], e[2])
        elif e[0] == 'call':
            return False, 'stub calls %s' % e[1][0]
    if E.trace.mutable_statics or E.trace.globals_written:
        return False, 'stub keeps state (%s)' % (E.trace.mutable_statics or list(E.trace.globals_written))[:1]
    if 'MASA ERROR' not in text:
        return False, "no string literal containing 'MASA ERROR' is printed"
    if o.ret != ('neg', terms.num(Fraction(133, 100))) and o.ret != terms.num(Fraction(-133, 100)):
        return False, 'returns `%s`, not the literal -1.33' % (terms.fmt(o.ret)[:40] if o.ret else None)
    # the literal must be a double literal converted to Scalar (not float, not a long double literal)
    for r in nodes(fn.body, 'return'):
        pass
    lits = [n for f_ in [fn] + [g for g in _callees(prog, fn)] for n in walk(f_.body) if n.get('k') == 'float' and n.get('sp', '').rstrip('fFlL').lstrip('-') in ('1.33',)]
    for n in lits:
        if n.get('t') != 'double':
            return False, 'the sentinel literal %s has type %s, not double' % (n.get('sp'), n.get('t'))
    for f_ in [fn] + _callees(prog, fn):
        for c in nodes(f_.body, 'cast'):
            if c.get('t') == 'float':
                return False, 'sentinel passes through float'
    return True, ''


def _callees(prog, fn, depth=0, seen=None):
    seen = seen if seen is not None else set()
    out = []
    for c in walk(fn.body):
        if c.get('k') == 'call' and c.get('inrepo') and c.get('q'):
            for g in prog.by_q.get(c['q'], []):
                if (g.q, g.sig) not in seen and depth < 4:
                    seen.add((g.q, g.sig))
                    out.append(g)
                    out += _callees(prog, g, depth + 1, seen)
    return out


def load_exceptions():
    return json.load(open(os.path.join(VERIF, 'tables', 'exceptions.json')))


def forwarding_shape(f, scalar, slot, prog=None):
    """The entry point, evaluated with its callees inlined (registry accessor, get_ms, helpers, named temporaries), has exactly
    one returning path; on it the only effect is one virtual call SLOT(parameters in order, unconverted) on the solution the
    selection pointer of the Scalar registry designates, and the value returned is the value of that call."""
    from .. import api, terms
    E, paths = api.evaluate(prog, f, scalar)
    ptr = api.pointer_path(prog, scalar)
    good = [o for o in paths if o.kind != 'exit']
    if len(good) != 1:
        return False, 'has %d returning paths, expected one' % len(good)
    o = good[0]
    evs = api.flat(o.events)
    base_q = cat.BASE % scalar + '::'
    sol_calls = [e for e in evs if e[0] == 'call' and e[1][0].startswith(base_q)]
    if len(sol_calls) != 1:
        return False, 'calls %d members of the solution object, expected exactly the slot %s' % (len(sol_calls), slot)
    q, args, objt, sig, virt = sol_calls[0][1][:5]
    if q != base_q + slot:
        return False, 'forwards to slot %s, the name map assigns %s' % (q.split('::')[-1], slot)
    if not virt:
        return False, 'callee %s is not virtual' % q
    if (sig or '').replace(' const', '') != f.sig:
        return False, 'forwards to overload `%s`, entry point is `%s`' % (sig, f.sig)
    if objt != ('sym', ptr + '*'):
        other = [r for sc2, r in api.registry_globals(prog).items() if objt is not None and r in terms.fmt(objt)]
        return False, 'object is not masa_master<%s>().get_ms() (it is `%s`)' % (scalar, terms.fmt(objt)[:70] if objt else None)
    want = tuple(('sym', p['n']) for p in f.params)
    if tuple(args) != want:
        if len(args) != len(want):
            return False, 'passes %d arguments, has %d parameters' % (len(args), len(want))
        i = [k for k in range(len(want)) if args[k] != want[k]][0]
        return False, 'argument %d is `%s`, expected parameter `%s` unchanged' % (i + 1, terms.fmt(args[i])[:50], f.params[i]['n'])
    if o.ret != ('call', 'repo:' + slot, tuple(args)):
        return False, 'returns `%s`, not the value of the slot call' % (terms.fmt(o.ret)[:60] if o.ret else None)
    extra = [e for e in evs if e[0] in ('write', 'write-through', 'store', 'print', 'new', 'delete', 'terminate', 'throw') or
             (e[0] == 'call' and e is not sol_calls[0])]
    if extra:
        return False, 'has another effect on the returning path: %s at %s' % (extra[0][0], extra[0][2])
    for n in nodes(f.body, 'cast'):
        if n.get('ck') in ('FloatingCast', 'FloatingToIntegral', 'IntegralToFloating', 'IntegralCast', 'FloatingToBoolean'):
            return False, 'a conversion (%s at %s) occurs in the forwarding function' % (n['ck'], n.get('l'))
    return True, ''


def api_eval_functions(prog, scalar):
    return [f for f in prog.functions if f.q.startswith('MASA::masa_eval_') and not f.get('rec') and f.scalar == scalar]


def run(ctx, prog, only_grad=False):
    pid = ctx.pid
    R = (lambda r: 'C07.G1' if only_grad else 'C15.' + r)
    ctx.rule(R('R2'), 'every MASA::masa_eval_*<Scalar> is `return masa_master<Scalar>().get_ms().SLOT(params in order)`; SLOT is the slot '
             'the name map assigns (source_X->eval_q_X, exact_X->eval_exact_X, grad_X->eval_g_X + 8 statistical names), same overload')
    if not only_grad:
        ctx.rule('C15.R1', "every virtual eval_* of manufactured_solution<Scalar> only inserts string literals (one containing 'MASA ERROR') into std::cout and returns the literal -1.33")
        ctx.rule('C15.R3', 'in every catalogue class a method that has the name of a base virtual overrides a base virtual (clang overridden_methods), unless listed in tables/exceptions.json')
        ctx.rule('C15.R4', 'every evaluator override takes exactly the class\'s number of coordinates (dimension, plus time for the classes of tables/temporal.json) unless listed in tables/exceptions.json extra_arity')
        ctx.rule('C15.R5', 'every masa_eval_* template declared in masa.h is defined in masa_core.cpp and explicitly instantiated for double and long double')
        ctx.rule('C15.PAIRS', 'for every (solution, API overload, scalar): the final overrider of the forwarded slot is either a catalogue-class override or a base stub of shape R1')
        ctx.explanation = ('37 solutions x 117 API overloads x 2 scalars are decided by 117 one-line forwarding templates, the base-class stubs and clang\'s '
                           'override resolution: a pair whose slot the class does not override provably reaches a stub that prints the marker and returns -1.33 with no other effect.')
    exc = load_exceptions()['non_overriding_eval']
    for scalar in cat.SCALARS:
        sc = 'ld' if scalar == 'long double' else 'd'
        api = api_eval_functions(prog, scalar)
        if only_grad:
            api = [f for f in api if f.n.startswith('masa_eval_grad_')]
            ctx.floor('grad_entry_points<%s>' % scalar, len(api), 24)
        else:
            ctx.floor('api_eval_templates<%s>' % scalar, len(api), 117)
        bv = cat.base_virtuals(prog, scalar)
        for f in api:
            slot = slot_for(f.n)
            if slot is None:
                raise AnalysisBroken('API function %s has no line in the slot name map' % f.n)
            ok, why = forwarding_shape(f, scalar, slot, prog)
            ctx.ob(R('R2'), '%s|%s' % (f.n, f.sig), ok, f.where, '%s(%s): %s' % (f.n, f.sig, why),
                   sample='%s %s -> %s' % (f.n, f.sig, slot))
            if ok and (slot, f.sig) not in bv:
                ctx.ob(R('R2'), '%s|%s|slot' % (f.n, f.sig), False, f.where, 'slot %s %s does not exist in the base class' % (slot, f.sig))
        if only_grad:
            continue
        # ---- R1
        stubs = [(k, m) for k, m in bv.items() if k[0].startswith('eval_')]
        ctx.floor('base_virtual_eval_slots<%s>' % scalar, len(stubs), 120)
        stub_ok = {}
        for (name, sig), m in stubs:
            fns = prog.fn(cat.BASE % scalar + '::' + name, sig)
            if not fns:
                ctx.ob('C15.R1', '%s|%s|%s' % (name, sig, sc), False, m['l'], 'base slot %s %s has no body' % (name, sig))
                continue
            ok, why = stub_shape(fns[0], prog, scalar)
            stub_ok[(name, sig)] = ok
            ctx.ob('C15.R1', '%s|%s|%s' % (name, sig, sc), ok, fns[0].where, 'stub %s(%s): %s' % (name, sig, why),
                   sample='%s %s: prints marker, returns -1.33' % (name, sig))
        # ---- R3
        fn, ents, other = cat.entries(prog, scalar)
        ctx.floor('catalogue_entries<%s>' % scalar, len(ents), 37)
        base_names = set(n for n, s in bv)
        n_over = 0
        for cls, _, _ in ents:
            for r in prog.base_chain(cls):
                if r == cat.BASE % scalar or not r.startswith('MASA::') or r.startswith('MASA::nsctpl::'):
                    continue
                rec = prog.records.get(r)
                ctx.require(rec is not None, 'record %s missing from IR' % r)
                for m in rec['methods']:
                    if m.get('ctor') or m.get('dtor'):
                        continue
                    if m['n'] not in base_names:
                        continue    # a method with a name of its own (private helper eval_fields, eval_flow...) is not reachable through the API
                    key = '%s::%s|%s' % (cat.short(r), m['n'], m['sig'].replace(scalar, 'S'))
                    if m['overrides']:
                        n_over += 1
                        ctx.ob('C15.R3', key + '|' + sc, True, m['l'], sample='%s overrides %s' % (key, m['overrides'][0]))
                    elif key in exc:
                        ctx.ob('C15.R3', key + '|' + sc, True, m['l'], nontrivial=False)
                    else:
                        ctx.ob('C15.R3', key + '|' + sc, False, m['l'],
                               '%s::%s %s has the name of an evaluator slot but overrides nothing (signature does not match any base virtual)' % (cat.short(r), m['n'], m['sig']))
        ctx.floor('overriding_methods<%s>' % scalar, n_over, 230)
        # ---- R4 arity consistency: an override whose number of Scalar coordinates is not the class's own makes an
        # arity the solution does not provide return a plausible number instead of the sentinel
        import json as _json
        tt = _json.load(open(os.path.join(VERIF, 'tables', 'temporal.json')))
        extra = load_exceptions().get('extra_arity', {})
        from .c14 import ctor_of, member_stores
        from ..ast import int_value
        from .c10 import evaluator_overrides
        for cls, _, _ in ents:
            short = cat.short(cls)
            ctor = ctor_of(prog, cls)
            st_ = member_stores(ctor, 'dimension') if ctor else []
            dim = int_value(st_[0]['b']) if len(st_) == 1 and st_[0].get('k') == 'bin' else None
            if dim is None:
                continue
            want = dim + (1 if short in tt['temporal'] and short not in tt['dimension_counts_time'] else 0)
            for name, sig, f in evaluator_overrides(prog, cls, scalar):
                ar = sum(1 for q in f.params if q['t'] == scalar)
                if ar == want:
                    continue
                key = '%s::%s/%d' % (short, name, ar)
                listed = key in extra or ('%s::*/%d' % (short, ar)) in extra
                ctx.ob('C15.R4', key + '|' + sc, listed, f.where,
                       '%s::%s overrides the %d-coordinate slot although the solution has %d coordinate(s): the unsupported arity returns a computed value instead of -1.33' % (short, name, ar, want),
                       sample='%s (listed exception)' % key, nontrivial=False)
        # ---- PAIRS
        n_stub = n_impl = 0
        bad_pairs = []
        for cls, _, _ in ents:
            for f in api:
                slot = slot_for(f.n)
                owner, m = cat.resolve_virtual(prog, cls, slot, f.sig)
                if owner == cat.BASE % scalar:
                    n_stub += 1
                    if not stub_ok.get((slot, f.sig), False):
                        bad_pairs.append((cls, f.n, f.sig))
                elif owner is None:
                    bad_pairs.append((cls, f.n, f.sig))
                else:
                    n_impl += 1
        ctx.analysed['pairs_reaching_stub<%s>' % scalar] = n_stub
        ctx.analysed['pairs_implemented<%s>' % scalar] = n_impl
        ctx.ob('C15.PAIRS', 'all|' + sc, not bad_pairs, fn.where,
               '%d (solution, overload) pairs reach a slot that is neither an override nor a well-formed stub, e.g. %s' % (len(bad_pairs), bad_pairs[:2]),
               sample='%d pairs reach a stub, %d an override (%s)' % (n_stub, n_impl, scalar))
    if only_grad:
        return
    # ---- R5 closure
    tm = prog.templates.get('masa_core.cpp')
    ctx.require(tm is not None, 'masa_core.cpp not analysed')
    declared = {}
    defined = {}
    other_decl = []
    for t in tm:
        if not t['q'].startswith('MASA::masa_eval_'):
            if t['q'].startswith('MASA::masa_') and not t['def'] and t['l'].startswith('src/masa.h.in'):
                other_decl.append(t)
            continue
        (defined if t['def'] else declared)[(t['n'], t['sig'])] = t
    decl_h = {k: t for k, t in declared.items() if t['l'].startswith('src/masa.h.in')}
    ctx.floor('api_templates_declared_in_masa_h', len([k for k in decl_h if k[0].startswith('masa_eval_')]), 117)
    undefined_other = [t['n'] for t in other_decl if not any(d['n'] == t['n'] and d['sig'] == t['sig'] and d['def'] for d in tm)]
    if undefined_other:
        ctx.note('informational (not an evaluator, outside C15): declared in masa.h but never defined: %s' % sorted(set(undefined_other)))
    inst = {}
    for f in prog.functions:
        if f.q.startswith('MASA::') and not f.get('rec') and f.scalar and f.get('tsk') in ('explicit_def', 'specialization'):
            inst[(f.n, f.sig, f.scalar)] = f
    for (n, sig), t in sorted(decl_h.items()):
        key = '%s|%s' % (n, sig.replace('type-parameter-0-0', 'S'))
        if (n, sig) not in defined:
            ctx.ob('C15.R5', key, False, t['l'], 'declared in masa.h but not defined in masa_core.cpp')
            continue
        miss = [s for s in cat.SCALARS if (n, sig.replace('type-parameter-0-0', s), s) not in inst]
        ctx.ob('C15.R5', key, not miss, t['l'], 'defined but not explicitly instantiated for %s' % miss, sample=key,
               nontrivial=n.startswith('masa_eval_'))
