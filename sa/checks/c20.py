"""C20 - parameter specialisations map one catalogue solution onto another."""
from .. import residual as rs, poly
from .. import catalogue as cat
from ..report import AnalysisBroken

LEVEL = 'proof'
ZERO = {}


def src(ctx, prog, short, scalar, name, coords, zero=()):
    cls = 'MASA::%s<%s>' % (short, scalar)
    ctx.require(cls in prog.records, 'catalogue class %s not found' % cls)
    env = {z: ZERO for z in zero}
    try:
        Q, fn = rs.evaluator_poly(prog, cls, scalar, name, coords, env=env)
    except rs.Inconclusive as ex:
        raise AnalysisBroken(str(ex))
    ctx.require(Q is not None, '%s has no %s(%s)' % (short, name, ','.join(coords)))
    return Q, fn


def pair(ctx, prog, key, big, bname, bcoords, zero, small, sname, scoords):
    """big::bname with the `zero` parameters set to 0 equals small::sname as canonical normal forms"""
    res = {}
    for scalar in cat.SCALARS:
        Qb, fb = src(ctx, prog, big, scalar, bname, bcoords, zero)
        Qs, fs = src(ctx, prog, small, scalar, sname, scoords)
        res[scalar] = (Qb, Qs)
        if scalar == 'double':
            left = set(bcoords) - set(scoords)
            dep = [c for c in left if poly.depends(poly.witness(Qb), c)]
            if dep:
                ctx.ob('C20.SPEC', key, False, fb.where, '%s::%s still depends on coordinate %s after the specialisation' % (big, bname, dep))
            else:
                rs.compare(ctx, 'C20.SPEC', key, Qb, Qs, fb.where, '%s::%s with %s = 0 vs %s::%s' % (big, bname, ','.join(zero), small, sname))
    return res['double'] == res['long double']


def run(ctx, prog):
    ctx.rule('C20.SPEC', 'the larger solution\'s source with the specialising parameters replaced by the constant 0 has the same canonical normal form as the smaller solution\'s source '
             '(shared parameters and coordinates keep their names; the dropped coordinate must disappear)')
    ctx.rule('C20.UNI', 'both instantiations give the same normal forms')
    ctx.explanation = ('Substitution of 0 for the specialising parameters followed by canonical normal form equality: a proof, for all values of the shared parameters and all points, '
                       'that the two catalogue entries agree where their models coincide.')
    uni = True
    n = 0
    # 3D -> 2D (Euler and Navier-Stokes): all z amplitudes and the w field zero
    z3 = ['rho_z', 'u_z', 'v_z', 'p_z', 'w_0', 'w_x', 'w_y', 'w_z']
    for fam, big, small in (('euler', 'euler_3d', 'euler_2d'), ('ns', 'navierstokes_3d_compressible', 'navierstokes_2d_compressible')):
        for eq in ('rho', 'rho_u', 'rho_v', 'rho_e'):
            uni &= pair(ctx, prog, '%s-3d-to-2d|%s' % (fam, eq), big, 'eval_q_' + eq, ['x', 'y', 'z'], z3, small, 'eval_q_' + eq, ['x', 'y'])
            n += 1
    # NS -> Euler: mu = k = 0
    for dim, ns, eu, coords in ((2, 'navierstokes_2d_compressible', 'euler_2d', ['x', 'y']), (3, 'navierstokes_3d_compressible', 'euler_3d', ['x', 'y', 'z'])):
        for eq in ['rho'] + ['rho_' + c for c in 'uvw'[:dim]] + ['rho_e']:
            uni &= pair(ctx, prog, 'ns-to-euler-%dd|%s' % (dim, eq), ns, 'eval_q_' + eq, coords, ['mu', 'k'], eu, 'eval_q_' + eq, coords)
            n += 1
    # transient -> steady Euler: temporal amplitudes zero
    for dim, tr, st, coords, ren in ((1, 'euler_transient_1d', 'euler_1d', ['x'], {}),
                                     (2, 'euler_transient_2d', 'euler_2d', ['x', 'y'], {'rho_u': 'u', 'rho_v': 'v', 'rho_e': 'e'}),
                                     (3, 'euler_transient_3d', 'euler_3d', ['x', 'y', 'z'], {'rho_u': 'u', 'rho_v': 'v', 'rho_w': 'w', 'rho_e': 'e'})):
        tz = ['rho_t', 'p_t'] + [c + '_t' for c in 'uvw'[:dim]]
        for eq in ['rho'] + ['rho_' + c for c in 'uvw'[:dim]] + ['rho_e']:
            uni &= pair(ctx, prog, 'euler-transient-to-steady-%dd|%s' % (dim, eq), tr, 'eval_q_' + ren.get(eq, eq), coords + ['t'], tz, st, 'eval_q_' + eq, coords)
            n += 1
    # heat: unsteady -> steady, variable -> constant
    for dim in (1, 2, 3):
        coords = ['x', 'y', 'z'][:dim]
        tz = ['A_t', 'B_t', 'C_t', 'D_t'][:dim] + ['D_t']
        for kind in ('const', 'var'):
            uni &= pair(ctx, prog, 'heat-unsteady-to-steady-%dd-%s' % (dim, kind), 'heateq_%dd_unsteady_%s' % (dim, kind), 'eval_q_t', coords + ['t'], sorted(set(tz)),
                        'heateq_%dd_steady_%s' % (dim, kind), 'eval_q_t', coords)
            n += 1
        for st in ('steady', 'unsteady'):
            c2 = coords + (['t'] if st == 'unsteady' else [])
            uni &= pair(ctx, prog, 'heat-var-to-const-%dd-%s' % (dim, st), 'heateq_%dd_%s_var' % (dim, st), 'eval_q_t', c2, ['k_1', 'k_2', 'cp_1', 'cp_2'],
                        'heateq_%dd_%s_const' % (dim, st), 'eval_q_t', c2)
            n += 1
    ctx.floor('specialisation_pairs', n, 8 + 9 + 12 + 12)
    ctx.ob('C20.UNI', 'all-pairs', uni, '', 'double and long double instantiations differ', sample='%d pairs identical in both instantiations' % n)
    ctx.trusted = ['clang 14 front end', 'tools/masa-ir', 'sa/terms.py', 'sa/poly.py']
