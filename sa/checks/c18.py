"""C18 - Fortran and SWIG bindings match the C ABI (DESIGN 2, C18).

Inputs: masa.f90 (own parser, sa/fortran.py), the extern "C" definitions of
the library (clang IR), the declarations a C consumer of masa.h sees (masa.h
parsed in C mode), masa.i.  Proof by exhaustive enumeration of
bindings x clauses.
"""
import os
import re
from .. import fortran
from ..ir import read, c_header_decls, REPO
from ..report import AnalysisBroken

LEVEL = 'other'

SCALAR = {'real(c_double)': 'double', 'integer(c_int)': 'int', 'real(c_float)': 'float',
          'integer(c_long)': 'long', 'logical(c_bool)': 'bool'}


def split_fnptr(t):
    """'double (*)(double, int)' -> ('double', ['double','int'])"""
    m = re.match(r'^(.*?)\s*\(\*\)\s*\((.*)\)$', t)
    if not m:
        return None
    args = [a.strip() for a in m.group(2).split(',') if a.strip() and a.strip() != 'void']
    return m.group(1).strip(), args


def arg_matches(decl, ctype, nested):
    """returns (ok, why) for one Fortran dummy against one C parameter type"""
    if decl is None and nested is None:
        return None, 'dummy argument has no declaration'
    if nested is not None:
        fp = split_fnptr(ctype)
        if fp is None:
            return False, 'Fortran passes a procedure, C expects `%s`' % ctype
        cret, cargs = fp
        # result
        rt = nested.rtype
        if nested.kind == 'function' and rt is None:
            rn = (nested.result or nested.name).lower()
            if rn in nested.decls:
                rt = nested.decls[rn]['type']
        want = 'void' if nested.kind == 'subroutine' else SCALAR.get(rt)
        if want is None:
            return None, 'callback result type `%s` not in the closed table' % rt
        if want != cret:
            return False, 'callback returns %s in Fortran, %s in C' % (want, cret)
        if len(nested.args) != len(cargs):
            return False, 'callback has %d arguments in Fortran, %d in C' % (len(nested.args), len(cargs))
        for a, ct in zip(nested.args, cargs):
            ok, why = arg_matches(nested.decls.get(a.lower()), ct, nested.nested.get(a.lower()))
            if not ok:
                return ok, 'callback argument `%s`: %s' % (a, why)
        return True, ''
    t = decl['type']
    if decl['extra']:
        return None, 'attribute(s) %s not in the closed table' % decl['extra']
    if t == 'type(c_funptr)':
        if decl['value'] and split_fnptr(ctype):
            return True, ''
        return False, 'type(c_funptr)%s against C `%s`' % (', value' if decl['value'] else '', ctype)
    if t == 'type(c_ptr)':
        if decl['value'] and ctype.endswith('*'):
            return True, ''
        return False, 'type(c_ptr) against C `%s`' % ctype
    if t.startswith('character'):
        if t.replace(' ', '') not in ('character(c_char)', 'character(kind=c_char)', 'character(kind=c_char,len=1)', 'character(len=1,kind=c_char)'):
            return None, 'character kind `%s` not in the closed table' % t
        if decl['value']:
            ok = ctype == 'char'
            return ok, 'character by value against C `%s`' % ctype
        ok = ctype in ('const char *', 'char *')
        return ok, 'character array (by reference) against C `%s`' % ctype
    base = SCALAR.get(t)
    if base is None:
        return None, 'type `%s` not in the closed table' % t
    if decl['value']:
        if decl['array']:
            return False, 'array dummy with VALUE'
        ok = ctype == base
        return ok, '%s, value (by value) against C `%s`' % (t, ctype)
    ok = ctype in (base + ' *', 'const ' + base + ' *')
    return ok, '%s without VALUE (by reference) against C `%s`' % (t, ctype)


def run(ctx, prog):
    ctx.rule('F-SYM', 'each bind(C) name in masa.f90 is defined by an extern "C" function of the library')
    ctx.rule('F-ARITY', 'the Fortran interface and the C definition have the same number of arguments')
    ctx.rule('F-CONV', 'per argument: C type and by-value/by-reference convention agree (closed table; dummy procedures compared recursively with the C function-pointer type)')
    ctx.rule('F-RESULT', 'real(c_double) function <-> double, integer(c_int) function <-> int, subroutine <-> void')
    ctx.rule('H-DEF', 'every function a C consumer sees declared in masa.h is defined by the library with the identical type')
    ctx.rule('S-INC', 'masa.i declares module masa, %includes exactly masa.h and adds no declarations of its own')
    ctx.explanation = 'Exhaustive enumeration: every bind(C) interface x {symbol, arity, per-argument convention, result}, every C declaration of masa.h, the SWIG interface file.'
    f90 = os.path.join(prog.repo, 'src', 'masa.f90')
    ctx.require(os.path.exists(f90), 'src/masa.f90 missing')
    top, modprocs = fortran.parse(read(f90))
    binds = [p for p in top if p.bind]
    ctx.floor('bind_C_interfaces', len(binds), 91)
    cdefs = {}
    for f in prog.functions:
        if f.get('externc') and not f.get('rec'):
            cdefs[f.n] = f
    ctx.floor('extern_C_definitions', len(cdefs), 95)
    n_nested = 0
    for p in binds:
        where = 'src/masa.f90:%d' % p.line
        key = p.bindname
        c = cdefs.get(p.bindname)
        ctx.ob('F-SYM', key, c is not None, where, 'bind(C,name=\'%s\') of %s: no such extern "C" definition' % (p.bindname, p.name),
               sample='%s -> %s' % (p.name, c.where if c else None))
        if c is None:
            continue
        if p.unknown:
            raise AnalysisBroken('masa.f90:%d: unparsed line in bind(C) interface %s: %r' % (p.unknown[0][0], p.name, p.unknown[0][1]))
        cparams = [x['t'] for x in c.params]
        ctx.ob('F-ARITY', key, len(p.args) == len(cparams), where,
               '%s has %d dummy arguments, C %s has %d parameters' % (p.name, len(p.args), c.n, len(cparams)),
               sample='%s: %d = %d' % (key, len(p.args), len(cparams)), nontrivial=len(cparams) > 0)
        if len(p.args) == len(cparams):
            for i, (a, ct) in enumerate(zip(p.args, cparams)):
                nested = p.nested.get(a.lower())
                if nested is not None:
                    n_nested += 1
                ok, why = arg_matches(p.decls.get(a.lower()), ct, nested)
                if ok is None:
                    raise AnalysisBroken('masa.f90:%d %s argument %s: %s' % (p.line, p.name, a, why))
                ctx.ob('F-CONV', '%s#%d' % (key, i + 1), ok, where, 'argument `%s` of %s: %s' % (a, p.name, why),
                       sample='%s %s <-> %s' % (a, (p.decls.get(a.lower()) or {}).get('type', 'procedure'), ct))
        # result
        if p.kind == 'subroutine':
            fret = 'void'
        else:
            rt = p.rtype
            if rt is None:
                rn = (p.result or p.name).lower()
                rt = p.decls.get(rn, {}).get('type')
            fret = SCALAR.get(rt)
            if fret is None:
                raise AnalysisBroken('masa.f90:%d result type %r of %s not in the closed table' % (p.line, rt, p.name))
        ctx.ob('F-RESULT', key, fret == c.ret, where,
               'Fortran %s %s binds C function returning %s' % (p.kind if fret == 'void' else rt + ' function', p.name, c.ret),
               sample='%s: %s = %s' % (key, fret, c.ret))
    ctx.floor('dummy_procedures_compared', n_nested, 2)
    # duplicate binding names with different interfaces
    seen = {}
    for p in binds:
        seen.setdefault(p.bindname, []).append(p)
    ctx.analysed['distinct_bind_names'] = len(seen)

    # ---- H-DEF
    hdecls = c_header_decls(prog.repo)
    ctx.floor('C_declarations_in_masa_h', len(hdecls), 73)

    def canon(sig):
        return sig.replace('(void)', '()').replace(' noexcept', '')
    for d in hdecls:
        c = cdefs.get(d['n'])
        ok = c is not None and canon(c.sig) == canon(d['sig'])
        ctx.ob('H-DEF', d['n'], ok, d['l'],
               'declared `%s` in masa.h; %s' % (d['sig'], ('defined as `%s`' % c.sig) if c else 'no definition in the library'),
               sample='%s %s' % (d['n'], d['sig']))

    # ---- S-INC
    ipath = os.path.join(prog.repo, 'src', 'masa.i')
    ctx.require(os.path.exists(ipath), 'src/masa.i missing')
    txt = read(ipath)
    txt = re.sub(r'/\*.*?\*/', '', txt, flags=re.S)
    lines = [re.sub(r'//.*$', '', l).strip() for l in txt.splitlines()]
    mods = [l for l in lines if l.startswith('%module')]
    ctx.ob('S-INC', 'module', len(mods) == 1 and re.match(r'^%module\s+masa\s*$', mods[0]) is not None, 'src/masa.i',
           'module directive(s): %r' % mods, sample='%module masa')
    incs = [l for l in lines if re.match(r'^%(include|import)\b', l)]
    ctx.ob('S-INC', 'include', incs == ['%include "masa.h"'], 'src/masa.i', 'include directives %r, expected exactly %%include "masa.h"' % incs,
           sample='%include "masa.h"')
    inblock = False
    extra = []
    for l in lines:
        if not l:
            continue
        if l.startswith('%{'):
            inblock = True
            continue
        if l.startswith('%}'):
            inblock = False
            continue
        if inblock:
            if not l.startswith('#'):
                extra.append(l)
            continue
        if re.match(r'^%(inline|extend|rename|ignore|native|constant|callback|pythoncode|insert|typemap|apply)\b', l):
            extra.append(l)
        elif not l.startswith('%') and not l.startswith('#'):
            extra.append(l)
    ctx.ob('S-INC', 'no-extra-declarations', not extra, 'src/masa.i', 'masa.i adds or alters declarations: %r' % extra[:3],
           sample='only %module / %{ #define %} / %include')
    ctx.trusted = ['sa/fortran.py interface-block parser (closed grammar subset)', 'clang 14 (C and C++ front ends)', 'tools/masa-ir']
