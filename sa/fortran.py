"""Parser for the interface blocks of src/masa.f90 (free-form Fortran 2003).

Only what C18 needs: every procedure heading with a bind(C) suffix, its dummy
arguments with type-spec / attributes, the function result, and nested
(abstract) interface blocks that describe dummy procedures.  The grammar subset
is closed: an unrecognised declaration inside a bind(C) procedure raises
AnalysisBroken (exit 2) instead of being guessed.
"""
import re
from .report import AnalysisBroken


def _strip_comment(line):
    out = []
    q = None
    for ch in line:
        if q:
            out.append(ch)
            if ch == q:
                q = None
        elif ch in '"\'':
            q = ch
            out.append(ch)
        elif ch == '!':
            break
        else:
            out.append(ch)
    return ''.join(out).rstrip()


def logical_lines(text):
    """(lineno, text) with comments removed and continuations joined"""
    res = []
    cur = ''
    start = None
    for i, raw in enumerate(text.splitlines(), 1):
        l = _strip_comment(raw.replace('\t', ' '))
        if not l.strip():
            continue
        s = l.strip()
        if cur:
            if s.startswith('&'):
                s = s[1:].lstrip()
        if start is None:
            start = i
        if s.endswith('&'):
            cur += s[:-1].rstrip() + ' '
            continue
        cur += s
        res.append((start, cur))
        cur = ''
        start = None
    if cur:
        res.append((start, cur))
    return res


HEAD = re.compile(
    r'^(?:(?:pure|elemental|impure|recursive|module)\s+)*(?:(?P<rtype>(?:real|integer|character|logical|type)\s*\([^)]*\))\s+)?(?:(?:pure|elemental|impure|recursive)\s+)*'
    r'(?P<kind>subroutine|function)\s+(?P<name>\w+)\s*'
    r'(?:\((?P<args>[^)]*)\))?\s*'
    r'(?P<suffix>.*)$', re.I)
BIND = re.compile(r'bind\s*\(\s*c\s*(?:,\s*name\s*=\s*(?P<q>[\'"])(?P<name>[^\'"]*)(?P=q)\s*)?\)', re.I)
RESULT = re.compile(r'result\s*\(\s*(\w+)\s*\)', re.I)
DECL = re.compile(r'^(?P<type>(?:real|integer|character|logical|type|procedure)\s*(?:\([^)]*\))?)\s*(?P<attrs>(?:,\s*[^:]*?)?)\s*::\s*(?P<names>.*)$', re.I)


def norm_type(t):
    t = re.sub(r'\s+', '', t.lower())
    # real(kind=c_double) and real(c_double) are the same type-spec (the first positional of real/integer/logical is the kind);
    # for CHARACTER the first positional is the length, so character(...) is left as written
    m = re.match(r'^(real|integer|logical)\(kind=([^)]*)\)$', t)
    if m:
        t = '%s(%s)' % (m.group(1), m.group(2))
    # a kind given by a named integer constant of the module (integer, parameter :: rk = c_double) is that kind
    m = re.match(r'^(real|integer|logical)\((\w+)\)$', t)
    if m and m.group(2) in KIND_ALIASES:
        t = '%s(%s)' % (m.group(1), KIND_ALIASES[m.group(2)])
    return t


KIND_ALIASES = {}
PARAM_DECL = re.compile(r'^integer\s*(?:\([^)]*\))?\s*(?:,\s*(?:parameter|private|public)\s*)+::\s*(?P<rest>.+)$', re.I)


def collect_kind_aliases(text):
    """named kind constants: integer, parameter [, private] :: rk = c_double [, ik = c_int]"""
    KIND_ALIASES.clear()
    for raw in text.splitlines():
        line = raw.split('!')[0].strip()
        m = PARAM_DECL.match(line)
        if not m or 'parameter' not in line.lower().split('::')[0]:
            continue
        for part in m.group('rest').split(','):
            if '=' in part:
                k, v = part.split('=', 1)
                k, v = k.strip().lower(), v.strip().lower()
                if re.match(r'^c_\w+$', v):
                    KIND_ALIASES[k] = v


ATTR_STMT = re.compile(r'^(?P<attr>value|optional|intent\s*\(\s*\w+\s*\)|dimension\s*\([^)]*\))\s*(?:::)?\s*(?P<names>.+)$', re.I)


class Proc:
    def __init__(self, kind, name, args, rtype, bind, bindname, line, result=None):
        self.kind = kind            # 'subroutine' | 'function'
        self.name = name
        self.args = args            # dummy names in order
        self.rtype = rtype          # normalised type-spec or None
        self.bind = bind            # bool
        self.bindname = bindname
        self.line = line
        self.result = result
        self.decls = {}             # lower name -> {'type','value','array','intent','line'}
        self.nested = {}            # lower name -> Proc (from nested interface blocks)
        self.unknown = []           # unparsed body lines

    def __repr__(self):
        return '<%s %s(%s) bind=%s>' % (self.kind, self.name, ','.join(self.args), self.bindname)


def parse(text):
    collect_kind_aliases(text)
    """returns (list of top-level interface procedures, list of module procedures)"""
    lines = logical_lines(text)
    iface_depth = 0
    stack = []          # open procedures
    iface_stack = []    # for each open interface: the procedure it is nested in (or None)
    top = []
    module_procs = []
    contains = False
    for ln, l in lines:
        low = l.lower().strip()
        if re.match(r'^(abstract\s+)?interface\b', low):
            iface_stack.append(stack[-1] if stack else None)
            continue
        if re.match(r'^end\s*interface\b', low):
            if not iface_stack:
                raise AnalysisBroken('masa.f90:%d: end interface without interface' % ln)
            iface_stack.pop()
            continue
        if low == 'contains':
            contains = True
            continue
        m = re.match(r'^end\s*(subroutine|function)\b', low)
        if m:
            if not stack:
                raise AnalysisBroken('masa.f90:%d: unbalanced end %s' % (ln, m.group(1)))
            p = stack.pop()
            continue
        if re.match(r'^end\s*module\b', low) or re.match(r'^module\b', low):
            continue
        h = HEAD.match(l.strip())
        if h and (iface_stack or contains) and not low.startswith(('use ', 'implicit', 'import')):
            suffix = h.group('suffix') or ''
            b = BIND.search(suffix)
            r = RESULT.search(suffix)
            args = [a.strip() for a in (h.group('args') or '').split(',') if a.strip()]
            p = Proc(h.group('kind').lower(), h.group('name'), args,
                     norm_type(h.group('rtype')) if h.group('rtype') else None,
                     bool(b), (b.group('name') if b and b.group('name') is not None else (h.group('name').lower() if b else None)),
                     ln, r.group(1).lower() if r else None)
            if iface_stack and iface_stack[-1] is not None and stack:
                # nested interface body describing a dummy procedure of the enclosing one
                iface_stack[-1].nested[p.name.lower()] = p
            elif iface_stack:
                top.append(p)
            else:
                module_procs.append(p)
            stack.append(p)
            continue
        if not stack:
            continue
        p = stack[-1]
        if low.startswith(('use ', 'use,', 'implicit', 'import', 'return', 'call ')) or low in ('import',):
            continue
        am = ATTR_STMT.match(l.strip())
        if am and not DECL.match(l.strip()):
            # attribute specification statement: `value :: x, y`, `intent(in) :: a`, `dimension(*) :: v`
            attr = re.sub(r'\s+', '', am.group('attr').lower())
            for nm in re.split(r',(?![^()]*\))', am.group('names')):
                nm = nm.strip()
                arr_ = False
                m2 = re.match(r'^(\w+)\s*\(([^)]*)\)$', nm)
                if m2:
                    nm, arr_ = m2.group(1), True
                p.__dict__.setdefault('pending', {}).setdefault(nm.lower(), []).append((attr, arr_))
            continue
        d = DECL.match(l.strip())
        if d:
            t = norm_type(d.group('type'))
            attrs = [a.strip().lower() for a in d.group('attrs').split(',') if a.strip()]
            attrs = [re.sub(r'\s+', '', a) for a in attrs]
            for nm in re.split(r',(?![^()]*\))', d.group('names')):
                nm = nm.strip()
                arr = False
                m2 = re.match(r'^(\w+)\s*\(([^)]*)\)$', nm)
                if m2:
                    nm = m2.group(1)
                    arr = True
                if any(a.startswith('dimension(') for a in attrs):
                    arr = True
                known = {'value', 'intent(in)', 'intent(out)', 'intent(inout)', 'optional'}
                extra = [a for a in attrs if a not in known and not a.startswith('dimension(')]
                p.decls[nm.lower()] = {'type': t, 'value': 'value' in attrs, 'array': arr,
                                       'attrs': attrs, 'extra': extra, 'line': ln}
            continue
        p.unknown.append((ln, l))
    if stack or iface_stack:
        raise AnalysisBroken('masa.f90: unbalanced interface/procedure nesting at end of file')

    def finish(p):
        for nm, lst in getattr(p, 'pending', {}).items():
            dcl = p.decls.get(nm)
            if dcl is None:
                p.unknown.append((p.line, 'attribute statement for undeclared name %s' % nm))
                continue
            for attr, arr_ in lst:
                if attr == 'value':
                    dcl['value'] = True
                if attr.startswith('dimension(') or arr_:
                    dcl['array'] = True
                if attr not in dcl['attrs']:
                    dcl['attrs'].append(attr)
        if p.kind == 'function' and p.rtype is None:
            # result typed in the body: `real(c_double) :: <function name or result variable>`
            rd = p.decls.get((p.result or p.name).lower())
            if rd is not None:
                p.rtype = rd['type']
        for q_ in p.nested.values():
            finish(q_)
    for p in top + module_procs:
        finish(p)
    return top, module_procs
