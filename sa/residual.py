"""Residual operators (the oracle side of C01-C06, C20) and the comparison harness.

The oracle is a few lines per PDE family: the governing operator written over
polynomials (sa/poly.py) with the table-driven derivative.  It is applied to
the exact fields *as the code defines them* (eval_exact_* bodies, forward
substituted) and the result is compared, in canonical normal form, with the
source term *as the code defines it*.  EQUAL is a proof for all parameter
values and points; DIFFERENT is definite for the polynomial/trigonometric
subset (independent phases).
"""
from fractions import Fraction
from . import terms, poly
from . import catalogue as cat
from .report import AnalysisBroken

S = poly.sym
add, mul, d = poly.add, poly.mul, poly.diff


class Inconclusive(Exception):
    pass


# evaluators found to read/write function-local static storage while being forward substituted (reported by vcheck
# under <property>.STATE: the value is then not a function of the current parameters and arguments alone)
STATE_FINDINGS = []


def evaluator_poly(prog, cls, scalar, name, coords, extra_sig=None, hook=None, env=None, freeze=None, want_trace=False):
    """canonical polynomial of the value returned by cls::name(coords...) or None if the class has no override"""
    sig = '%s (%s)' % (scalar, ', '.join([scalar] * len(coords) + (extra_sig or [])))
    owner, m = cat.resolve_virtual(prog, cls, name, sig)
    if owner is None or owner == cat.BASE % scalar:
        return None, None
    fns = prog.fn(owner + '::' + name, sig)
    if not fns:
        return None, None
    fn = fns[0]
    E = terms.Evaluator(prog, dyn_class=cls, scalar=scalar)
    E.init_mem = dict(cat.ctor_flags(prog, cls))     # validity flags as construction leaves them: the first evaluation is analysed
    if hook:
        E.opaque_hook = hook
    if freeze:
        E.freeze = dict(freeze)
    outs = E.run(fn, arg_names=list(coords) + ['cb%d' % i for i in range(len(extra_sig or []))])
    for nm, loc_ in E.trace.mutable_statics:
        STATE_FINDINGS.append(('%s::%s|%s' % (cat.short(cls), name, nm), loc_ or fn.where,
                               '%s::%s keeps `%s` in function-local static storage: after the first call its value no longer follows the current parameters' % (cat.short(cls), name, nm)))
    if len(outs) != 1 or outs[0].kind != 'ret' or outs[0].ret is None:
        raise Inconclusive('%s::%s has %d paths' % (cat.short(cls), name, len(outs)))
    u = terms.has_unk(outs[0].ret)
    if u:
        raise Inconclusive('%s::%s contains an unmodelled construct (%s)' % (cat.short(cls), name, u[0]))
    try:
        if want_trace:
            return poly.from_term(outs[0].ret, env), fn, E.trace
        return poly.from_term(outs[0].ret, env), fn
    except (ValueError, poly.TooBig) as ex:
        raise Inconclusive('%s::%s: %s' % (cat.short(cls), name, ex))


def compare(ctx, rule, key, Q, R, where, what, definite=True):
    """records one obligation: Q == R"""
    try:
        Dr = poly.witness(add(Q, R, -1))
    except (poly.TooBig, poly.NoRule, ZeroDivisionError) as ex:
        raise AnalysisBroken('%s %s: normal form not computable (%r)' % (rule, key, ex))
    if Dr:
        # second chance: function atoms (sqrt, pow, exp, log) whose arguments are the same rational function written differently
        try:
            D2 = poly.witness(poly.merge_equal_atoms(add(Q, R, -1)))
            if not D2:
                Dr = D2
        except (poly.TooBig, poly.NoRule, ZeroDivisionError, ValueError, RecursionError):
            pass
    if not Dr:
        ctx.ob(rule, key, True, where, sample='%s: code == oracle (%d monomials)' % (what, len(Q)))
        return True
    import hashlib
    h = hashlib.sha1(repr(poly.canon(Dr)).encode()).hexdigest()[:10]
    msg = '%s differs from the oracle by %s' % (what, poly.fmt(Dr, 3))
    # the instance key of a failing comparison carries a digest of the canonical difference, so that a known
    # finding suppresses exactly this discrepancy and any other change of the same term is reported again
    ctx.ob(rule, '%s#%s' % (key, h), False if definite else None, where, msg)
    return False


# --------------------------------------------------------------------------
# operators
# --------------------------------------------------------------------------
def cosp(ph):
    return poly.from_term(('call', 'cos', (('sym', '__x'),)), {'__x': ph})


def heat_T(dim, unsteady):
    T = poly.const(1)
    for c, (A, At) in zip(['x', 'y', 'z'][:dim], [('A_x', 'A_t'), ('B_y', 'B_t'), ('C_z', 'C_t')]):
        ph = mul(S(A), S(c))
        if unsteady:
            ph = add(ph, mul(S(At), S('t')))
        T = mul(T, cosp(ph))
    if unsteady:
        T = mul(T, cosp(mul(S('D_t'), S('t'))))
    return T


def heat_residual(T, dim, unsteady, var):
    k = S('k_0')
    cp = S('cp_0')
    if var:
        k = add(add(k, mul(S('k_1'), T)), mul(S('k_2'), mul(T, T)))
        cp = add(add(cp, mul(S('cp_1'), T)), mul(S('cp_2'), mul(T, T)))
    R = {}
    if unsteady:
        R = mul(mul(S('rho'), cp), d(T, 't'))
    for c in ['x', 'y', 'z'][:dim]:
        R = add(R, d(mul(k, d(T, c)), c), -1)
    return R


def total_energy(F, vel, gamma):
    ke = {}
    for ui in vel:
        ke = add(ke, mul(ui, ui))
    rhoE = add(mul(F['p'], poly.inverse(add(S(gamma), poly.const(-1)))), poly.scale(mul(F['rho'], ke), Fraction(1, 2)))
    return rhoE, add(rhoE, F['p'])


def euler_residuals(F, space, t, gamma='Gamma'):
    rho, p_ = F['rho'], F['p']
    vel = [F[n] for n in ['u', 'v', 'w'][:len(space)]]
    rhoE, rhoH = total_energy(F, vel, gamma)
    R = {}
    m = d(rho, t) if t else {}
    for ui, xi in zip(vel, space):
        m = add(m, d(mul(rho, ui), xi))
    R['rho'] = m
    for i, (ui, xi) in enumerate(zip(vel, space)):
        r = d(mul(rho, ui), t) if t else {}
        for uj, xj in zip(vel, space):
            r = add(r, d(mul(mul(rho, ui), uj), xj))
        R['rho_' + 'uvw'[i]] = add(r, d(p_, xi))
    e = d(rhoE, t) if t else {}
    for uj, xj in zip(vel, space):
        e = add(e, d(mul(rhoH, uj), xj))
    R['rho_e'] = e
    return R


def ns_residuals(F, space, t, gamma='Gamma', mu=None, kth=None, Rgas='R'):
    """compressible Navier-Stokes: Newtonian stress with Stokes' hypothesis, Fourier flux, T = p/(rho R)"""
    rho, p_ = F['rho'], F['p']
    vel = [F[n] for n in ['u', 'v', 'w'][:len(space)]]
    mu = mu if mu is not None else S('mu')
    kth = kth if kth is not None else S('k')
    R = euler_residuals(F, space, t, gamma)
    n = len(space)
    divu = {}
    for ui, xi in zip(vel, space):
        divu = add(divu, d(ui, xi))
    lam = poly.scale(mu, Fraction(-2, 3))
    tau = [[None] * n for _ in range(n)]
    for i in range(n):
        for j in range(n):
            tij = mul(mu, add(d(vel[i], space[j]), d(vel[j], space[i])))
            if i == j:
                tij = add(tij, mul(lam, divu))
            tau[i][j] = tij
    T = mul(p_, poly.inverse(mul(rho, S(Rgas))))
    for i in range(n):
        r = R['rho_' + 'uvw'[i]]
        for j in range(n):
            r = add(r, d(tau[i][j], space[j]), -1)
        R['rho_' + 'uvw'[i]] = r
    e = R['rho_e']
    for j in range(n):
        work = {}
        for i in range(n):
            work = add(work, mul(tau[i][j], vel[i]))
        e = add(e, d(work, space[j]), -1)
        e = add(e, d(mul(kth, d(T, space[j])), space[j]), -1)
    R['rho_e'] = e
    return R


def cyl_div(fr, fz):
    return add(mul(S('r', -1), d(mul(S('r'), fr), 'r')), d(fz, 'z'))


def axi_euler_residuals(F, t, gamma='Gamma'):
    """cylindrical coordinates (r, z), velocity (u, w), no swirl"""
    rho, p_, u, w = F['rho'], F['p'], F['u'], F['w']
    rhoE, rhoH = total_energy(F, [u, w], gamma)
    R = {}
    R['rho'] = add(d(rho, t) if t else {}, cyl_div(mul(rho, u), mul(rho, w)))
    R['rho_u'] = add(add(d(mul(rho, u), t) if t else {}, cyl_div(mul(mul(rho, u), u), mul(mul(rho, u), w))), d(p_, 'r'))
    R['rho_w'] = add(add(d(mul(rho, w), t) if t else {}, cyl_div(mul(mul(rho, w), u), mul(mul(rho, w), w))), d(p_, 'z'))
    R['rho_e'] = add(d(rhoE, t) if t else {}, cyl_div(mul(rhoH, u), mul(rhoH, w)))
    return R


def axi_stress(F):
    u, w = F['u'], F['w']
    mu = S('mu')
    rinv = S('r', -1)
    divu = cyl_div(u, w)
    lam = poly.scale(mu, Fraction(-2, 3))
    trr = add(poly.scale(mul(mu, d(u, 'r')), 2), mul(lam, divu))
    tzz = add(poly.scale(mul(mu, d(w, 'z')), 2), mul(lam, divu))
    tqq = add(poly.scale(mul(mu, mul(u, rinv)), 2), mul(lam, divu))
    trz = mul(mu, add(d(u, 'z'), d(w, 'r')))
    return trr, tzz, tqq, trz, divu


def axi_ns_residuals(F, t, gamma='Gamma', Rgas='R'):
    rho, p_, u, w = F['rho'], F['p'], F['u'], F['w']
    R = axi_euler_residuals(F, t, gamma)
    trr, tzz, tqq, trz, divu = axi_stress(F)
    rinv = S('r', -1)
    kth = S('k')
    T = mul(p_, poly.inverse(mul(rho, S(Rgas))))
    R['rho_u'] = add(R['rho_u'], add(cyl_div(trr, trz), mul(tqq, rinv), -1), -1)
    R['rho_w'] = add(R['rho_w'], cyl_div(trz, tzz), -1)
    work_r = add(mul(trr, u), mul(trz, w))
    work_z = add(mul(trz, u), mul(tzz, w))
    R['rho_e'] = add(R['rho_e'], cyl_div(work_r, work_z), -1)
    R['rho_e'] = add(R['rho_e'], cyl_div(mul(kth, d(T, 'r')), mul(kth, d(T, 'z'))), -1)
    return R


def axi_stress_selfcheck(F):
    """oracle cross-check: div(tau) == mu (lap u + 1/3 grad div u) in cylindrical coordinates"""
    u, w = F['u'], F['w']
    mu = S('mu')
    rinv = S('r', -1)
    trr, tzz, tqq, trz, divu = axi_stress(F)
    fr = add(cyl_div(trr, trz), mul(tqq, rinv), -1)
    fz = cyl_div(trz, tzz)
    lap_r = add(add(add(d(d(u, 'r'), 'r'), mul(rinv, d(u, 'r'))), mul(mul(rinv, rinv), u), -1), d(d(u, 'z'), 'z'))
    lap_z = add(add(d(d(w, 'r'), 'r'), mul(rinv, d(w, 'r'))), d(d(w, 'z'), 'z'))
    gr = add(lap_r, poly.scale(d(divu, 'r'), Fraction(1, 3)))
    gz = add(lap_z, poly.scale(d(divu, 'z'), Fraction(1, 3)))
    return poly.is_zero(add(fr, mul(mu, gr), -1)) and poly.is_zero(add(fz, mul(mu, gz), -1))


def fields(prog, cls, scalar, names, coords):
    F = {}
    fns = {}
    for n in names:
        pl, fn = evaluator_poly(prog, cls, scalar, 'eval_exact_' + n, coords)
        if pl is None:
            raise AnalysisBroken('%s has no eval_exact_%s(%s)' % (cat.short(cls), n, ','.join(coords)))
        F[n] = pl
        fns[n] = fn
    return F, fns
