"""Thorough tier: seeded-change self-test (DESIGN 1.6).

Every kept seeded change under seeded/<id>/ (patch.diff + meta.json) that names
this property is applied to a scratch copy of /repo/src, the same check is run
on the copy (statically - nothing is built or executed), and the check must
report a violation.  An undetected seeded change is an analysis-broken exit:
the checker is weaker than claimed.  The scratch copy is removed before return.
"""
import json
import os
import shutil
import subprocess
import sys
import tempfile

from .ir import VERIF, REPO
from .report import AnalysisBroken


def seeds_for(pid):
    base = os.path.join(VERIF, 'seeded')
    out = []
    if not os.path.isdir(base):
        return out
    for d in sorted(os.listdir(base)):
        mp = os.path.join(base, d, 'meta.json')
        if not os.path.exists(mp):
            continue
        meta = json.load(open(mp))
        if pid in meta.get('detected_by', []):
            out.append((d, meta))
    return out


def scratch_copy():
    tmp = tempfile.mkdtemp(prefix='masa-seed-')
    os.makedirs(os.path.join(tmp, 'src'))
    for fn in os.listdir(os.path.join(REPO, 'src')):
        p = os.path.join(REPO, 'src', fn)
        if os.path.isfile(p) and fn.endswith(('.cpp', '.h', '.hpp', '.in', '.am', '.f90', '.i')) or fn == 'Makefile':
            if os.path.isfile(p):
                shutil.copy2(p, os.path.join(tmp, 'src', fn))
    shutil.copy2(os.path.join(REPO, 'config.h'), os.path.join(tmp, 'config.h'))
    return tmp


def run(ctx):
    pid = ctx.pid
    seeds = seeds_for(pid)
    ctx.analysed['seeded_changes_replayed'] = len(seeds)
    for name, meta in seeds:
        tmp = scratch_copy()
        out = tempfile.mkdtemp(prefix='masa-seed-out-')
        try:
            patch = os.path.join(VERIF, 'seeded', name, 'patch.diff')
            p = subprocess.run(['patch', '-p1', '-s', '-d', tmp, '-i', patch], stdout=subprocess.PIPE, stderr=subprocess.STDOUT, text=True)
            if p.returncode != 0:
                raise AnalysisBroken('seeded/%s: patch does not apply to the current tree (%s)' % (name, p.stdout.strip()[:200]))
            env = dict(os.environ, MASA_REPO=tmp, VCHECK_OUT=out, VERIF_TIER='quick')
            r = subprocess.run([sys.executable, os.path.join(VERIF, 'vcheck'), pid, '--tier', 'quick'], stdout=subprocess.PIPE, stderr=subprocess.STDOUT, text=True, env=env)
            viol = [l for l in r.stdout.splitlines() if l.startswith('VIOLATION')]
            if r.returncode != 1 or not viol:
                raise AnalysisBroken('seeded/%s (%s) is NOT detected by %s (exit %d): the check is weaker than claimed' % (name, meta.get('summary', ''), pid, r.returncode))
            first = [l for l in r.stdout.splitlines() if '[' + pid[:3] in l or '[F-' in l or '[H-' in l or '[S-' in l]
            ctx.selftests.append('seeded/%s detected: %s' % (name, (first[0] if first else viol[0])[:200]))
            ctx.ob(pid + '.SELFTEST', name, True, 'seeded/%s/patch.diff' % name, sample='seeded change %s is reported' % name, nontrivial=False)
        finally:
            shutil.rmtree(tmp, ignore_errors=True)
            shutil.rmtree(out, ignore_errors=True)
