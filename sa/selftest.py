"""Thorough tier: seeded-change self-test (DESIGN 1.6), both directions.

Besides the property-breaking changes under seeded/, the behaviour-preserving
refactorings under seeded_refactor/ (each confirmed to build, pass the suite and
leave its demonstration unchanged) are replayed: on every one of them the check
must exit 0 without a VIOLATION line.  A check that reports one is raising a
false alarm and is treated as broken.

Every kept seeded change under seeded/<id>/ (patch.diff + meta.json) that names
this property is applied to a scratch copy of /repo/src, the same check is run
on the copy (statically - nothing is built or executed), and the check must
report a violation.  An undetected seeded change is an analysis-broken exit:
the checker is weaker than claimed.  The scratch copy is removed before return.
"""
import json
import os
import shutil
import subprocess
import sys
import tempfile

from .ir import VERIF, REPO
from .report import AnalysisBroken


def seeds_for(pid):
    base = os.path.join(VERIF, 'seeded')
    out = []
    if not os.path.isdir(base):
        return out
    for d in sorted(os.listdir(base)):
        mp = os.path.join(base, d, 'meta.json')
        if not os.path.exists(mp):
            continue
        meta = json.load(open(mp))
        if pid in meta.get('detected_by', []):
            out.append((d, meta))
    return out


def scratch_copy():
    tmp = tempfile.mkdtemp(prefix='masa-seed-')
    os.makedirs(os.path.join(tmp, 'src'))
    for fn in os.listdir(os.path.join(REPO, 'src')):
        p = os.path.join(REPO, 'src', fn)
        if os.path.isfile(p) and fn.endswith(('.cpp', '.h', '.hpp', '.in', '.am', '.f90', '.i')) or fn == 'Makefile':
            if os.path.isfile(p):
                shutil.copy2(p, os.path.join(tmp, 'src', fn))
    # small non-compiled sub-directories that patches may touch (scripts, templates); build output is never copied
    for sub in ('import', 'common', 'lic_utils'):
        sp = os.path.join(REPO, 'src', sub)
        if os.path.isdir(sp):
            shutil.copytree(sp, os.path.join(tmp, 'src', sub), ignore=shutil.ignore_patterns('*.o', '*.lo', '.libs', '.deps', '*.la'))
    for extra in ('src/autoimport.pl', 'src/__init__.py'):
        ep = os.path.join(REPO, extra)
        if os.path.isfile(ep):
            shutil.copy2(ep, os.path.join(tmp, extra))
    shutil.copy2(os.path.join(REPO, 'config.h'), os.path.join(tmp, 'config.h'))
    return tmp


def run(ctx):
    pid = ctx.pid
    seeds = seeds_for(pid)
    ctx.analysed['seeded_changes_replayed'] = len(seeds)
    for name, meta in seeds:
        tmp = scratch_copy()
        out = tempfile.mkdtemp(prefix='masa-seed-out-')
        try:
            patch = os.path.join(VERIF, 'seeded', name, 'patch.diff')
            p = subprocess.run(['patch', '-p1', '-s', '-d', tmp, '-i', patch], stdout=subprocess.PIPE, stderr=subprocess.STDOUT, text=True)
            if p.returncode != 0:
                raise AnalysisBroken('seeded/%s: patch does not apply to the current tree (%s)' % (name, p.stdout.strip()[:200]))
            env = dict(os.environ, MASA_REPO=tmp, VCHECK_OUT=out, VERIF_TIER='quick')
            r = subprocess.run([sys.executable, os.path.join(VERIF, 'vcheck'), pid, '--tier', 'quick'], stdout=subprocess.PIPE, stderr=subprocess.STDOUT, text=True, env=env)
            viol = [l for l in r.stdout.splitlines() if l.startswith('VIOLATION')]
            if r.returncode != 1 or not viol:
                raise AnalysisBroken('seeded/%s (%s) is NOT detected by %s (exit %d): the check is weaker than claimed' % (name, meta.get('summary', ''), pid, r.returncode))
            first = [l for l in r.stdout.splitlines() if '[' + pid[:3] in l or '[F-' in l or '[H-' in l or '[S-' in l]
            ctx.selftests.append('seeded/%s detected: %s' % (name, (first[0] if first else viol[0])[:200]))
            ctx.ob(pid + '.SELFTEST', name, True, 'seeded/%s/patch.diff' % name, sample='seeded change %s is reported' % name, nontrivial=False)
        finally:
            shutil.rmtree(tmp, ignore_errors=True)
            shutil.rmtree(out, ignore_errors=True)


def refactorings():
    base = os.path.join(VERIF, 'seeded_refactor')
    if not os.path.isdir(base):
        return []
    return [d for d in sorted(os.listdir(base)) if os.path.exists(os.path.join(base, d, 'patch.diff'))]


def _replay_refactor(pid, name):
    tmp = scratch_copy()
    out = tempfile.mkdtemp(prefix='masa-seed-out-')
    try:
        patch = os.path.join(VERIF, 'seeded_refactor', name, 'patch.diff')
        p = subprocess.run(['patch', '-p1', '-s', '--fuzz=3', '-d', tmp, '-i', patch], stdout=subprocess.PIPE, stderr=subprocess.STDOUT, text=True)
        if p.returncode != 0:
            return name, None, 'patch does not apply to the current tree (%s)' % p.stdout.strip()[:160]
        env = dict(os.environ, MASA_REPO=tmp, VCHECK_OUT=out, VERIF_TIER='quick')
        r = subprocess.run([sys.executable, os.path.join(VERIF, 'vcheck'), pid, '--tier', 'quick'], stdout=subprocess.PIPE, stderr=subprocess.STDOUT, text=True, env=env)
        viol = [l for l in r.stdout.splitlines() if l.startswith('VIOLATION')]
        first = [l for l in r.stdout.splitlines() if '] ' in l and '[' in l and not l.startswith(('KNOWN', 'VIOLATION', 'inconclusive'))]
        broken = [l for l in r.stdout.splitlines() if l.startswith('ANALYSIS-BROKEN')]
        return name, (r.returncode == 0 and not viol), (first[0] if first else (broken[0] if broken else 'exit %d' % r.returncode))[:220]
    finally:
        shutil.rmtree(tmp, ignore_errors=True)
        shutil.rmtree(out, ignore_errors=True)


def run_refactorings(ctx):
    """every kept behaviour-preserving refactoring must leave the check silent"""
    from concurrent.futures import ThreadPoolExecutor
    pid = ctx.pid
    names = refactorings()
    ctx.analysed['refactorings_replayed'] = len(names)
    with ThreadPoolExecutor(max_workers=8) as ex:
        results = list(ex.map(lambda n: _replay_refactor(pid, n), names))
    for name, ok, msg in results:
        if ok is None:
            raise AnalysisBroken('seeded_refactor/%s: %s' % (name, msg))
        if not ok:
            raise AnalysisBroken('FALSE ALARM: %s reports a violation (or fails) on the behaviour-preserving refactoring seeded_refactor/%s: %s' % (pid, name, msg))
        ctx.ob(pid + '.SELFTEST', 'silent-on|' + name, True, 'seeded_refactor/%s/patch.diff' % name, sample='no report on refactoring %s' % name, nontrivial=False)
    if names:
        ctx.selftests.append('silent on %d behaviour-preserving refactorings (%s..%s)' % (len(names), names[0], names[-1]))
