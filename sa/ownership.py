"""Ownership simulation of the catalogue objects (C12.H2, C13.N5, C19.O1/O2).

init_mms and masa_printid are executed by forward substitution with the concrete
vector model switched on: get_list_mms is inlined, so the candidate vector holds
one distinct `new` term per registration; the candidate loop has a constant trip
count and is unrolled with branching (one path per "first match is candidate k"
plus the fatal exits).  Every path is then a straight-line list of effects on
named objects, and the ownership rules are checked on each path separately:

  * which `new` objects are deleted, how often;
  * which object is stored in the registry map, under which key, by which
    operation (map[key] = v / insert(pair(key, v)) / find(key)->second = v);
  * what the selection pointer is at the end;
  * what the path condition says about the previous entry under that key and
    about the comparison that selected the candidate.

Nothing here depends on how the loop is written (index / iterator / while,
helpers, early continue): only the effects along each path count.
"""
from . import terms
from .ast import strip
from .report import AnalysisBroken

MAP = '_master_map'
PTR = '_master_pointer'


def _hook(ev, e, n, obj, args_e, P, fr):
    # return_name(&s): s becomes the (opaque) name of the object; masa_map(&s): s becomes its normal form
    if n == 'return_name' and obj is not None and len(args_e) == 1:
        o = ev.E(obj, P, fr)
        while o[0] == 'deref':
            o = o[1]        # the object a pointer value designates is identified with that pointer value
        a = strip(args_e[0], casts=True)
        if a.get('k') == 'un' and a['op'] == '&':
            ev.assign(a['e'], name_of(ev.prog, o), P, fr, e.get('l'))
            P.events.append(('call', (e.get('q'), (), o, e.get('sig'), True), e.get('l')))
            return terms.num(0)
    if e.get('inrepo') and not e.get('rec') and n not in ('masa_map',) and args_e:
        # a free predicate over strings (e.g. a matcher comparing the requested name with a candidate's name) is kept as an
        # uninterpreted predicate: its string loops are not what the ownership rules are about
        cal = ev.prog.by_q.get(e.get('q'), [])
        if len(cal) == 1 and str(cal[0].ret).replace('const ', '') in ('bool', 'int') and cal[0].params and \
                all('basic_string<char' in str(p_.get('t', '')) and (str(p_['t']).startswith('const ') or not str(p_['t']).endswith('&')) for p_ in cal[0].params):
            return ('call', 'pred:' + n, tuple(ev.E(a, P, fr) for a in args_e))
    if n == 'masa_map' and len(args_e) == 1 and e.get('inrepo'):
        a = strip(args_e[0], casts=True)
        if a.get('k') == 'un' and a['op'] == '&':
            old = ev.E(a['e'], P, fr)
            ev.assign(a['e'], ('call', 'masa_map', (old,)), P, fr, e.get('l'))
            return terms.num(0)
    return None


def name_of(prog, o):
    """what return_name yields for object o: the literal its constructor stores in mmsname (C14.K2 checks that mmsname is
    written nowhere else and that return_name copies it) or an opaque term"""
    if is_new(o):
        from . import catalogue as cat
        lit = cat.name_literal(prog, o[1])
        if lit is not None:
            return ('str', lit)
    return ('call', 'name_of', (o,))


def simulate(prog, fn, scalar):
    """all paths of fn (returning, falling off the end, fatal) with concrete candidate vector"""
    E = terms.Evaluator(prog, scalar=scalar, noreturn=('masa_exit',), opaque=('list_mms',))
    E.vecmodel = True
    E.unroll_paths = True
    E.call_hook = _hook
    outs = E.run(fn)
    paths = list(outs)
    for p in E.trace.exit_paths:
        if p not in paths:
            paths.append(p)
    return E, paths


def flat_events(evs):
    """events in order; the body paths of loops that were summarised (not unrolled) are flattened in place and the
    fact that a summary was needed is reported"""
    out, summarised = [], []

    def rec(es):
        for e in es:
            if e[0] == 'loop':
                summarised.append(e[2])
                for k_, c_, sub in e[1][1]:
                    rec(sub)
            elif e[0] == 'branch':
                # alternative paths through an inlined helper, folded into one event: their effects cannot be counted per path
                if any(x[0] in ('delete', 'new', 'write', 'store', 'branch', 'loop') for k_, c_, sub in e[1][1] for x in sub):
                    summarised.append(e[2])
                for k_, c_, sub in e[1][1]:
                    rec(sub)
            else:
                out.append(e)
    rec(evs)
    return out, summarised


def is_new(t):
    return isinstance(t, tuple) and t and t[0] == 'new'


def map_root(t):
    """is t the registry map (its initial value or any later state of it)"""
    while isinstance(t, tuple) and t:
        if t in (('sym', MAP), ('sym', '@old:' + MAP)):
            return True
        if t[0] == 'call' and (t[1] == 'elemstore' or t[1].startswith('container:')) and t[2]:
            t = t[2][0]
            continue
        return False
    return False


def find_key(t):
    """key of the registry lookup a term is derived from: find(key)->second, (*find(key)).second, map[key], at(key)"""
    for st in terms.subterms(t):
        if st[0] == 'mcall' and st[2] in ('find', 'at', 'lower_bound') and map_root(st[1]) and len(st[3]) == 1:
            return st[3][0]
        if st[0] == 'elem' and map_root(st[1]):
            return st[2]
    return None


def lookup_fact(c, mapname=MAP):
    """(key, present?) when the condition c states whether the map member `mapname` holds key; else None"""
    neg = False
    while c[0] == 'not':
        neg = not neg
        c = c[1]
    if c[0] == 'call' and c[1] in ('op:operator==', 'op:operator!=') and len(c[2]) == 2:
        a, b = c[2]
        for x, y in ((a, b), (b, a)):
            if x[0] == 'mcall' and x[2] == 'find' and x[1] == ('sym', mapname) and len(x[3]) == 1 and y[0] == 'mcall' and y[2] in ('end', 'cend') and y[1] == ('sym', mapname):
                present = (c[1] == 'op:operator!=') != neg
                return x[3][0], present
    if c[0] == 'cmp' and c[1] in ('==', '!=', '>', '<') and len(c) == 4:
        for x, y in ((c[2], c[3]), (c[3], c[2])):
            if x[0] == 'mcall' and x[2] == 'count' and x[1] == ('sym', mapname) and len(x[3]) == 1 and y == terms.num(0):
                if c[1] == '==':
                    present = neg
                elif c[1] == '!=':
                    present = not neg
                elif (c[1] == '>' and x is c[2]) or (c[1] == '<' and x is c[3]):
                    present = not neg
                else:
                    return None
                return x[3][0], present
    if c[0] == 'mcall' and c[2] == 'count' and c[1] == ('sym', mapname) and len(c[3]) == 1:
        return c[3][0], not neg
    return None


def equality_fact(c):
    """(a, b) when c states a == b for two strings (operator==, !operator!=, compare(...) == 0); else None"""
    neg = False
    while c[0] == 'not':
        neg = not neg
        c = c[1]
    if c[0] == 'call' and c[1] in ('op:operator==', 'op:operator!=') and len(c[2]) == 2:
        if (c[1] == 'op:operator==') != neg:
            return c[2]
        return None
    if c[0] == 'cmp' and c[1] in ('==', '!='):
        for x, y in ((c[2], c[3]), (c[3], c[2])):
            if x[0] == 'mcall' and x[2] == 'compare' and len(x[3]) == 1 and y == terms.num(0):
                if (c[1] == '==') != neg:
                    return (x[1], x[3][0])
    if c[0] == 'mcall' and c[2] == 'compare' and len(c[3]) == 1 and neg:
        return (c[1], c[3][0])
    return None


class PathFacts(object):
    def __init__(self, P):
        self.P = P
        self.kind = P.kind if P.kind in ('ret', 'exit') else 'fall'
        self.events, self.summarised = flat_events(P.events)
        self.created = [e[1:] for e in self.events if e[0] == 'new']          # (type, loc)
        self.deleted = [(i, e[1], e[2]) for i, e in enumerate(self.events) if e[0] == 'delete']
        self.registered = []        # (event index, how, key, value, loc)
        self.unknown_map_ops = []
        prev = ('sym', MAP)
        for i, e in enumerate(self.events):
            if e[0] == 'store':
                tgt, v = e[1]
                k = find_key(tgt)
                if k is not None and tgt[0] == 'field' and tgt[2] == 'second':
                    self.registered.append((i, 'slot', k, v, e[2]))
                elif k is not None:
                    self.unknown_map_ops.append((e[2], 'store to %s' % terms.fmt(tgt)[:60]))
        # the sequence of states of the map member (each write wraps the previous state)
        states = []
        t = P.mem.get(MAP)
        while isinstance(t, tuple) and t and t not in (('sym', MAP), ('sym', '@old:' + MAP)):
            if t[0] == 'call' and (t[1] == 'elemstore' or t[1].startswith('container:')) and t[2]:
                states.append(t)
                t = t[2][0]
            else:
                self.unknown_map_ops.append((None, 'registry becomes %s' % terms.fmt(t)[:60]))
                break
        states.reverse()
        wr = [(i, e) for i, e in enumerate(self.events) if e[0] == 'write' and e[1] == MAP]
        for j, st in enumerate(states):
            idx, loc = (wr[j][0], wr[j][1][2]) if j < len(wr) else (len(self.events), None)
            if st[1] == 'elemstore':
                self.registered.append((idx, 'subscript', st[2][1], st[2][2], loc))
            elif st[1] == 'container:insert':
                a = st[2][1:]
                pr = [x for x in a if x[0] == 'pair']
                if len(pr) == 1:
                    self.registered.append((idx, 'insert', pr[0][1], pr[0][2], loc))
                else:
                    self.unknown_map_ops.append((loc, 'insert of %s' % ', '.join(terms.fmt(x)[:40] for x in a)))
            elif st[1] == 'container:erase':
                self.registered.append((idx, 'erase', st[2][1] if len(st[2]) > 1 else None, None, loc))
            elif st[1] == 'container:clear':
                self.registered.append((idx, 'clear', None, None, loc))
            else:
                self.unknown_map_ops.append((loc, st[1]))
        self.registered.sort(key=lambda r: r[0])
        self.pointer = P.mem.get(PTR)
        self.conds = list(P.conds)

    def installs(self):
        return [r for r in self.registered if r[1] in ('subscript', 'insert', 'slot')]


def analyse(prog, fn, scalar):
    E, paths = simulate(prog, fn, scalar)
    return E, [PathFacts(p) for p in paths]


def reachable_from(prog, roots):
    """functions (by qualified name) reachable from the named root functions through direct calls"""
    from .ir import walk
    seen = {}
    work = list(roots)
    while work:
        f = work.pop()
        if (f.q, f.sig) in seen:
            continue
        seen[(f.q, f.sig)] = f
        for n in walk(f.body):
            if n.get('k') == 'call' and n.get('inrepo') and n.get('q'):
                for g in prog.by_q.get(n['q'], []):
                    if (g.q, g.sig) not in seen:
                        work.append(g)
    return seen


def check_init(prog, im, scalar):
    """rule -> (problems, sample) for init_mms; rules:
       candidates   every object created in the call is deleted or installed exactly once on every path that does not terminate
       one-install  a path that returns normally installs exactly one object, created in this very call, under the handle parameter
       selected     ... and leaves the selection pointer on that object
       old-entry    the object previously registered under the handle is deleted before its entry is replaced; insert() only when the handle is absent
       dangling     a registered object that is deleted has its entry replaced before the function is left, fatal exits included
       double       no object is deleted twice on a path
       name-match   the installed object is the one whose name equals masa_map(name parameter)
       complete     nothing about the registry on any path is outside the model"""
    E, facts = analyse(prog, im, scalar)
    key_param = ('sym', im.params[0]['n'])
    name_param = ('sym', im.params[1]['n']) if len(im.params) > 1 else None
    res = {k: [] for k in ('candidates', 'one-install', 'key', 'selected', 'old-entry', 'dangling', 'double', 'name-match', 'name-match-undecided', 'fatal-registers', 'raw-name', 'complete')}
    n_created = set()
    n_ret = 0
    for F in facts:
        created = set(('new',) + c for c in F.created)
        n_created.add(len(created))
        for loc, what in F.unknown_map_ops:
            res['complete'].append('%s: %s' % (loc, what))
        if F.summarised and (F.deleted or F.registered):
            res['complete'].append('loop at %s could not be unrolled (condition not decidable from the candidate list)' % F.summarised[0])
        # the name parameter may influence the outcome only through the comparison of its normal form with the candidates' names
        if name_param is not None:
            mm = ('call', 'masa_map', (name_param,))
            for c in F.conds:
                if name_param not in list(terms.subterms(c)):
                    continue
                c0 = c
                while c0[0] == 'not':
                    c0 = c0[1]
                if c0[0] == 'call' and c0[1].startswith('pred:') and any(x[0] == 'str' or (x[0] == 'call' and x[1] == 'name_of') for x in c0[2]):
                    continue        # an uninterpreted matcher applied to the name and a candidate's name: see name-match
                eq = equality_fact(c) or equality_fact(('not', c))
                if eq is not None and mm in eq and all((x == mm) or (name_param not in list(terms.subterms(x))) for x in eq):
                    continue
                res['raw-name'].append('a path%s depends on `%s`: the raw name, not its normal form compared with the catalogue, decides' % (
                    ' that ends in masa_exit' if F.kind == 'exit' else '', terms.fmt(c)[:70]))
                break
        dels = [d[1] for d in F.deleted]
        for t in set(dels):
            if dels.count(t) > 1:
                res['double'].append('%s is deleted %d times on one path (%s)' % (terms.fmt(t)[:50], dels.count(t), [d[2] for d in F.deleted if d[1] == t][:2]))
        inst = F.installs()
        # dangling: delete of something read out of the registry must be followed by a replacement / erase of that key
        for i, t, loc in F.deleted:
            if is_new(t):
                continue
            k = find_key(t)
            if k is None:
                res['complete'].append('%s: delete of %s, which is neither a candidate nor a registry entry' % (loc, terms.fmt(t)[:50]))
                continue
            later = [r for r in F.registered if r[0] > i and (r[2] == k or r[1] == 'clear' or (r[1] == 'erase' and r[2] is not None and find_key(r[2]) == k))]
            if not later:
                res['dangling'].append('%s: the solution registered under %s is deleted and the function is left (%s) with its entry still in the registry' % (
                    loc, terms.fmt(k), 'fatal exit' if F.kind == 'exit' else 'return'))
        if F.kind == 'exit':
            if inst:
                res['fatal-registers'].append('%s: an object is installed on a path that then terminates through masa_exit' % inst[0][4])
            continue
        n_ret += 1
        installed_vals = [r[3] for r in inst]
        for obj in created:
            n = dels.count(obj) + installed_vals.count(obj)
            if n != 1:
                res['candidates'].append('the %s created at %s is %s on the path that %s' % (
                    obj[1].split('::')[-1], obj[2], 'neither deleted nor installed (leak)' if n == 0 else 'deleted/installed %d times' % n,
                    ('installs the %s' % installed_vals[0][1].split('::')[-1]) if installed_vals and is_new(installed_vals[0]) else 'installs nothing'))
        if len(inst) != 1:
            res['one-install'].append('a path returns normally after installing %d objects (%s)' % (len(inst), [r[4] for r in inst][:3] or 'no match: silent return'))
            continue
        idx, how, k, v, loc = inst[0]
        if not (is_new(v) and v in created):
            res['one-install'].append('%s: installs `%s`, which is not an object created by get_list_mms in this call' % (loc, terms.fmt(v)[:60]))
        if k != key_param:
            res['key'].append('%s: installs under key `%s`, not the unmodified handle parameter %s' % (loc, terms.fmt(k)[:60], key_param[1]))
        if F.pointer != v:
            res['selected'].append('%s: the selection pointer ends as `%s`, not the installed object' % (loc, terms.fmt(F.pointer)[:60] if F.pointer else 'unchanged'))
        # old entry
        facts_k = [lookup_fact(c) for c in F.conds]
        absent = any(f_ is not None and f_[0] == k and f_[1] is False for f_ in facts_k)
        present = any(f_ is not None and f_[0] == k and f_[1] is True for f_ in facts_k)
        old_deleted = any(i < idx and not is_new(t) and find_key(t) == k for i, t, l_ in F.deleted)
        erased = any(r[0] < idx and r[1] == 'erase' and r[2] is not None and (r[2] == k or find_key(r[2]) == k) for r in F.registered)
        if how == 'subscript':
            if not (absent or old_deleted):
                res['old-entry'].append('%s: the entry of %s is overwritten without deleting the object registered before: re-initialising a handle leaks it' % (loc, terms.fmt(k)))
        elif how == 'insert':
            if not (absent or (old_deleted and erased)):
                res['old-entry'].append('%s: insert() does not replace an existing entry: re-initialising %s keeps the old object registered%s' % (
                    loc, terms.fmt(k), ' (and it has been deleted: dangling)' if old_deleted else ''))
        elif how == 'slot':
            if not present:
                res['old-entry'].append('%s: stores through find(%s) without knowing the handle is registered' % (loc, terms.fmt(k)))
            if not old_deleted:
                res['old-entry'].append('%s: replaces the object registered under %s without deleting it' % (loc, terms.fmt(k)))
        # the match that selected this candidate
        if name_param is not None and is_new(v):
            nm = name_of(prog, v)
            want = {nm, ('call', 'masa_map', (name_param,))}
            eqs = [equality_fact(c) for c in F.conds]
            preds = [c for c in F.conds if c[0] == 'call' and c[1].startswith('pred:') and nm in c[2] and
                     any(x == name_param or x == ('call', 'masa_map', (name_param,)) for x in c[2])]
            if preds and not any(e_ is not None and set(e_) == want for e_ in eqs):
                res['name-match-undecided'].append('%s: the candidate is selected by %s(...), a string predicate this check does not interpret' % (loc, preds[0][1][5:]))
            elif not any(e_ is not None and set(e_) == want for e_ in eqs):
                got = [e_ for e_ in eqs if e_ is not None and nm in e_]
                res['name-match'].append('%s: the candidate is installed %s' % (loc, ('because its name equals `%s`, not masa_map(%s)' % (
                    terms.fmt([x for x in got[0] if x != nm][0])[:60], name_param[1])) if got else 'without comparing its name with masa_map(%s)' % name_param[1]))
    if E.trace.pruned:
        res['complete'].append('more distinct paths through the candidate loop than the exploration bound: only a subset was followed')
    info = {'paths': len(facts), 'returning': n_ret, 'created': sorted(n_created)}
    return res, info


def check_printid(prog, pf, scalar):
    E, facts = analyse(prog, pf, scalar)
    res = {'candidates': [], 'double': [], 'complete': []}
    n_ret = 0
    created_n = set()
    for F in facts:
        created = set(('new',) + c for c in F.created)
        created_n.add(len(created))
        if F.summarised and created:
            res['complete'].append('loop at %s could not be unrolled' % F.summarised[0])
        dels = [d[1] for d in F.deleted]
        for t in set(dels):
            if dels.count(t) > 1:
                res['double'].append('%s is deleted %d times on one path' % (terms.fmt(t)[:50], dels.count(t)))
        if F.registered or F.P.mem.get(PTR) is not None:
            res['complete'].append('masa_printid modifies the registry')
        if F.kind == 'exit':
            continue
        n_ret += 1
        for obj in created:
            if dels.count(obj) != 1:
                res['candidates'].append('the %s created at %s is %s' % (obj[1].split('::')[-1], obj[2], 'never deleted (leak)' if dels.count(obj) == 0 else 'deleted twice'))
    if E.trace.pruned:
        res['complete'].append('more distinct paths through the candidate loop than the exploration bound: only a subset was followed')
    return res, {'paths': len(facts), 'returning': n_ret, 'created': sorted(created_n)}


def check_select(prog, sm, scalar):
    """select_mms(key): every path that does not terminate leaves the selection pointer on find(key)->second, under the path
    condition that key is registered; the registry itself is not modified"""
    E = terms.Evaluator(prog, scalar=scalar, noreturn=('masa_exit',), opaque=('list_mms',))
    E.unroll_paths = True                     # a lookup helper returning the object or NULL continues select_mms once per path
    E.assume_nonnull_mapped = (MAP,)          # registered values are objects created by new (C12.H2 / C19.O1), never NULL
    outs = E.run(sm)
    outs = list(outs) + [p_ for p_ in E.trace.exit_paths if p_ not in outs]
    key = ('sym', sm.params[0]['n'])
    problems = []
    good = [o for o in outs if o.kind != 'exit']
    if not good:
        problems.append('select_mms never returns normally')
    for o in good:
        v = o.mem.get(PTR)
        if v is None:
            problems.append('a path returns normally without assigning the selection pointer')
            continue
        k = find_key(v)
        if not (v[0] == 'field' and v[2] == 'second' and k == key):
            problems.append('the selection pointer becomes `%s`, expected the object registered under the parameter %s' % (terms.fmt(v)[:60], key[1]))
            continue
        facts = [lookup_fact(c) for c in o.conds]
        if not any(f_ is not None and f_[0] == key and f_[1] is True for f_ in facts):
            problems.append('the pointer is taken from find(%s) without establishing that the handle is registered (end() would be dereferenced)' % key[1])
        if MAP in o.mem:
            problems.append('select_mms modifies the registry')
    bad_exit = [o for o in outs if o.kind == 'exit' and any(f_ is not None and f_[0] == key and f_[1] is True for f_ in [lookup_fact(c) for c in o.conds])]
    if bad_exit:
        problems.append('selecting a registered handle terminates the program')
    return problems, len(good)


# ---------------------------------------------------------------- removal of a registry entry outside init_mms
def removal_paths(prog, f, scalar):
    """Paths of entry point f (callees inlined, one path per branch) with what each does to the registry:
    [(path, erased iterators, deleted terms, pointer written?, pointer value)]"""
    from . import api
    regs = api.registry_globals(prog)
    own = regs[scalar]
    mp, ptr = own + '._master_map', own + '._master_pointer'
    E = terms.Evaluator(prog, scalar=scalar, noreturn=('masa_exit',))
    E.unroll_paths = True
    outs = E.run(f)
    res = []
    for o in list(outs) + [p_ for p_ in E.trace.exit_paths if p_ not in outs]:
        evs = api.flat(o.events)
        erased = []
        v = o.mem.get(mp)
        other_map_write = False
        while v is not None and v[0] == 'call' and v[1].startswith('container:'):
            if v[1] == 'container:erase' and len(v[2]) == 2:
                erased.append(v[2][1])
            else:
                other_map_write = True
            v = v[2][0]
        if v is not None and not (v[0] == 'sym' and v[1] in (mp, '@old:' + mp)):
            other_map_write = True
        deleted = [e[1] for e in evs if e[0] == 'delete']
        res.append({'path': o, 'erased': erased, 'deleted': deleted, 'ptr_written': ptr in o.mem, 'ptr_value': o.mem.get(ptr),
                    'other_map_write': other_map_write, 'map_written': mp in o.mem, 'facts': list(o.conds) + [e[1] for e in evs if e[0] == 'cond'],
                    'mp': mp, 'ptr': ptr})
    return res


def check_removal(rp):
    """(problems, leaks, recognised?) for one path of removal_paths: the entry found under a checked key is erased, its object is
    deleted, and the selection pointer cannot be left designating the deleted object."""
    if rp['path'].kind == 'exit':
        bad = []
        if rp['map_written'] or rp['deleted']:
            bad.append('the registry is modified on a path that then terminates')
        return bad, [], True
    if not rp['map_written'] and not rp['ptr_written'] and not rp['deleted']:
        return [], [], True
    if rp['other_map_write']:
        return [], [], False
    mp, ptr = rp['mp'], rp['ptr']
    probs, leaks = [], []

    def obj_of(it):
        return ('field', ('call', 'op:operator->', (it,)), 'second'), ('field', ('call', 'op:operator*', (it,)), 'second')
    for it in rp['erased']:
        if not (it[0] == 'mcall' and it[1] == ('sym', mp) and it[2] == 'find' and len(it[3]) == 1):
            return [], [], False
        if not any(lf is not None and lf[0] == it[3][0] and lf[1] is True for lf in (lookup_fact(c, mp) for c in rp['facts'])):
            probs.append('erases find(%s) without having established that the handle is registered' % terms.fmt(it[3][0])[:20])
        objs = obj_of(it)
        if not any(d in objs for d in rp['deleted']):
            leaks.append('the entry of handle `%s` is removed from the registry but its solution object is not deleted on this path' % terms.fmt(it[3][0])[:20])
        # the selection pointer must not keep designating the object
        same = [c for c in rp['facts'] if c[0] == 'cmp' and c[1] == '==' and ((c[2] == ('sym', ptr) and c[3] in objs) or (c[3] == ('sym', ptr) and c[2] in objs))]
        diff = [c for c in rp['facts'] if (c[0] == 'not' and c[1][0] == 'cmp' and c[1][1] == '==' and ((c[1][2] == ('sym', ptr) and c[1][3] in objs) or (c[1][3] == ('sym', ptr) and c[1][2] in objs))) or
                (c[0] == 'cmp' and c[1] == '!=' and ((c[2] == ('sym', ptr) and c[3] in objs) or (c[3] == ('sym', ptr) and c[2] in objs)))]
        if any(d in objs for d in rp['deleted']):
            if rp['ptr_written']:
                if rp['ptr_value'] != terms.num(0) and not (rp['ptr_value'] is not None and rp['ptr_value'][0] == 'field'):
                    return [], [], False
            elif not diff:
                probs.append('the object of handle `%s` is deleted while the selection pointer may still designate it (no test _master_pointer == it->second, no reset)' % terms.fmt(it[3][0])[:20])
            if same and not rp['ptr_written']:
                probs.append('the selected solution is deleted and the selection pointer keeps its address')
    for d in rp['deleted']:
        if not any(d in obj_of(it) for it in rp['erased']):
            if any(x == ('sym', mp) for x in terms.subterms(d)):
                probs.append('a registered solution object is deleted but its entry stays in the registry (dangling pointer)')
    if rp['ptr_written'] and not rp['erased']:
        return [], [], False
    return probs, leaks, True

