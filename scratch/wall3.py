import sys, time
sys.path.insert(0,'/verif')
from sa import ir, terms, poly, catalogue as cat
from fractions import Fraction
p=ir.load()
cls='MASA::fans_sa_steady_wall_bounded<double>'
up=[f for f in p.methods_of(cls) if f.n=='update'][0]
# one-level definitions: every member read yields its own symbol
rec=p.records[cls]
members=[x['n'] for x in rec['fields']]
E=terms.Evaluator(p, dyn_class=cls, scalar='double')
E.freeze={m:m for m in members}
outs=E.run(up, arg_names=['x','y'])
print(len(outs), [ (o.kind, [terms.fmt(c)[:60] for c in o.conds]) for o in outs])
defs={k:v for k,v in E.trace.frozen_values.items()}
print(sorted(defs))
for k in ('u_tau','c_f','Re_x','y_plus'):
    print(k, [terms.fmt(v)[:200] for v in defs[k]])
