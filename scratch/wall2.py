import sys, time
sys.path.insert(0,'/verif')
from sa import ir, terms, poly, residual as rs, catalogue as cat
from sa.checks import c05
from fractions import Fraction
p=ir.load()
S=poly.sym; add,mul,d=poly.add,poly.mul,poly.diff; inv=poly.inverse
scalar='double'; cls='MASA::fans_sa_steady_wall_bounded<double>'
CONST={k:k for k in ['A','u_inf','C1','T_aw','rho_w','F_c','nu_w','rho_inf','c_w1','cp']}
FZ=dict(CONST); FZ.update({'u_tau':'u_tau','y_plus':'yp','f_w':'@f_w','S_sa':'@S_sa','Sm':'@Sm','r':'@r','g':'@g'})
def ev(name):
    return rs.evaluator_poly(p,cls,scalar,name,['x','y'],freeze=FZ,want_trace=True)
F={}
for f in ['rho','u','v','p','nu','t']:
    F[f],_,_=ev('eval_exact_'+f); print(f,len(F[f]), poly.fmt(F[f],2)[:150])
poly.SYM_RULES={('u_tau','x'):mul(poly.const(Fraction(-1,14)),mul(S('u_tau'),S('x',-1))),
                ('yp','x'):mul(poly.const(Fraction(-1,14)),mul(S('yp'),S('x',-1))), ('yp','y'):mul(S('yp'),S('y',-1))}
R=c05.fans_oracle(['x','y'],None,F=F,wall=(S('y'),S('@f_w'),S('c_w1')),S_override=S('@S_sa'))
for eq in ['rho','nu','rho_u','rho_v','rho_e']:
    t0=time.time()
    Q,fn,tr=ev('eval_q_'+eq)
    try:
        w=poly.witness(add(Q,R[eq],-1))
        print(eq,len(Q),'EQUAL' if not w else 'DIFF %d: '%len(w)+poly.fmt(w,3)[:400],'%.1fs'%(time.time()-t0))
    except Exception as ex: print(eq,'EXC',repr(ex)[:200])
