import sys, time
sys.path.insert(0,'/verif'); sys.path.insert(0,'/verif/scratch')
from euler_exp import *
short='axi_cns'; cls='MASA::%s<double>'%short; coords=['r','z']
F={f:ev(cls,'eval_exact_'+f,coords) for f in ['rho','p','u','w']}
R=axi_euler_residuals(F,None)
for eq in ['rho_u','rho_w']:
    Q=ev(cls,'eval_q_'+eq,coords)
    V=poly.reduce_trig(poly.add(Q,R[eq],-1))
    print(eq,'viscous part of Q (Q - inviscid residual):')
    for m,c in sorted(V.items(), key=lambda mc: repr(mc[0])): print('   ',poly.fmt({m:c}))
