import sys, os; sys.path.insert(0,'/verif')
from sa import ir, ownership as ow
prog=ir.load(os.environ.get('MASA_REPO','/repo'))
for scalar in ('double',):
    rq=[r for r in prog.records if r.endswith('MasterMS<%s>'%scalar)][0]
    im=[f for f in prog.methods_of(rq) if f.n=='init_mms'][0]
    res,info=ow.check_init(prog,im,scalar)
    print(info); print({k:(len(v),v[:1]) for k,v in res.items() if v})
    pf=[f for f in prog.functions if f.q=='MASA::masa_printid<%s>'%scalar][0]
    res,info=ow.check_printid(prog,pf,scalar)
    print(info); print({k:(len(v),v[:1]) for k,v in res.items() if v})
