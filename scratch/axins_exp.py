import sys, time
sys.path.insert(0,'/verif'); sys.path.insert(0,'/verif/scratch')
from euler_exp import *
def axi_ns_residuals(F, t, gamma='Gamma', Rgas='R'):
    rho,p_,u,w=F['rho'],F['p'],F['u'],F['w']
    d=poly.diff; mul=poly.mul; add=poly.add
    r=S('r'); rinv=S('r',-1); mu=S('mu'); kth=S('k')
    R=axi_euler_residuals(F,t,gamma)
    def div(fr,fz): return add(mul(rinv,d(mul(r,fr),'r')), d(fz,'z'))
    divu=div(u,w)
    lam=poly.scale(mu,Fraction(-2,3))
    trr=add(poly.scale(mul(mu,d(u,'r')),2),mul(lam,divu))
    tzz=add(poly.scale(mul(mu,d(w,'z')),2),mul(lam,divu))
    tqq=add(poly.scale(mul(mu,mul(u,rinv)),2),mul(lam,divu))
    trz=mul(mu,add(d(u,'z'),d(w,'r')))
    T=mul(p_,poly.inverse(mul(rho,S(Rgas))))
    # momentum: (1/r) d(r trr)/dr + d trz/dz - tqq/r ; (1/r) d(r trz)/dr + d tzz/dz
    R['rho_u']=add(R['rho_u'], add(div(trr,trz), mul(tqq,rinv),-1), -1)
    R['rho_w']=add(R['rho_w'], div(trz,tzz), -1)
    work_r=add(mul(trr,u),mul(trz,w)); work_z=add(mul(trz,u),mul(tzz,w))
    R['rho_e']=add(R['rho_e'], div(work_r,work_z), -1)
    R['rho_e']=add(R['rho_e'], div(mul(kth,d(T,'r')),mul(kth,d(T,'z'))), -1)
    return R
if __name__=='__main__':
  for short,t,names in [('axi_cns',None,{}),('axi_cns_transient','t',{'rho_u':'u','rho_w':'w','rho_e':'e'})]:
    cls='MASA::%s<double>'%short
    coords=['r','z']+([t] if t else [])
    F={f:ev(cls,'eval_exact_'+f,coords) for f in ['rho','p','u','w']}
    t0=time.time()
    R=axi_ns_residuals(F,t)
    for eq,r in R.items():
        Q=ev(cls,'eval_q_'+names.get(eq,eq),coords)
        D=poly.add(Q,r,-1)
        z=poly.is_zero(D)
        print(short,eq,'EQUAL' if z else 'DIFF '+poly.fmt(poly.clear_inverses(poly.reduce_trig(D)),3), len(Q),'%.1fs'%(time.time()-t0))
