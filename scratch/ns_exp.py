import sys, time
sys.path.insert(0,'/verif'); sys.path.insert(0,'/verif/scratch')
from euler_exp import *
def ns_residuals(F, space, t, gamma='Gamma', mu=None, kth=None, Rgas='R', lam=None):
    rho,p_=F['rho'],F['p']
    vel=[F[n] for n in ['u','v','w'][:len(space)]]
    d=poly.diff; mul=poly.mul; add=poly.add
    mu = mu if mu is not None else S('mu'); kth = kth if kth is not None else S('k')
    R=euler_residuals(F,space,t,gamma)
    n=len(space)
    divu={}
    for ui,xi in zip(vel,space): divu=add(divu,d(ui,xi))
    lam_ = lam if lam is not None else poly.scale(mu,Fraction(-2,3))
    tau=[[None]*n for _ in range(n)]
    for i in range(n):
        for j in range(n):
            tij=mul(mu,add(d(vel[i],space[j]),d(vel[j],space[i])))
            if i==j: tij=add(tij,mul(lam_,divu))
            tau[i][j]=tij
    T=mul(p_,poly.inverse(mul(rho,S(Rgas))))
    for i in range(n):
        r=R['rho_'+'uvw'[i]]
        for j in range(n): r=add(r,d(tau[i][j],space[j]),-1)
        R['rho_'+'uvw'[i]]=r
    e=R['rho_e']
    for j in range(n):
        work={}
        for i in range(n): work=add(work,mul(tau[i][j],vel[i]))
        e=add(e,d(work,space[j]),-1)
        e=add(e,d(mul(kth,d(T,space[j])),space[j]),-1)   # + div q, q = -k grad T
    R['rho_e']=e
    return R
if __name__=='__main__':
  for short,space in [('navierstokes_2d_compressible',['x','y']),('navierstokes_3d_compressible',['x','y','z'])]:
    cls='MASA::%s<double>'%short
    coords=space
    F={f:ev(cls,'eval_exact_'+f,coords) for f in ['rho','p']+['u','v','w'][:len(space)]}
    t0=time.time()
    R=ns_residuals(F,space,None)
    for eq,r in R.items():
        Q=ev(cls,'eval_q_'+eq,coords)
        try:
            D=poly.add(Q,r,-1); z=poly.is_zero(D)
        except Exception as ex: z=None; print(short,eq,'EXC',repr(ex)[:200]); continue
        print(short,eq,'EQUAL' if z else 'DIFF '+poly.fmt(poly.reduce_trig(D),3), len(Q), '%.1fs'%(time.time()-t0))
