import sys, time
sys.path.insert(0,'/verif')
from sa import ir, terms, poly, residual as rs, catalogue as cat
from fractions import Fraction
p=ir.load()
S=poly.sym; add,mul,d=poly.add,poly.mul,poly.diff; inv=poly.inverse
scalar='double'; cls='MASA::fans_sa_steady_wall_bounded<double>'
FZ={'u_tau':'u_tau','y_plus':'yp','A':'A','u_inf':'u_inf','C1':'C1','T_aw':'T_aw','rho_w':'rho_w','F_c':'F_c','nu_w':'nu_w','rho_inf':'rho_inf'}
def ev(name):
    return rs.evaluator_poly(p,cls,scalar,name,['x','y'],freeze=FZ,want_trace=True)
t0=time.time()
Qrho,fn,tr=ev('eval_q_rho'); print('Qrho',len(Qrho),'%.1fs'%(time.time()-t0), sorted(tr.frozen_values))
U,_,_=ev('eval_exact_u'); V,_,_=ev('eval_exact_v'); RHO,_,_=ev('eval_exact_rho'); print('fields',len(U),len(V),len(RHO))
poly.SYM_RULES={('u_tau','x'):mul(poly.const(Fraction(-1,14)),mul(S('u_tau'),S('x',-1))),
                ('yp','x'):mul(poly.const(Fraction(-1,14)),mul(S('yp'),S('x',-1))), ('yp','y'):mul(S('yp'),S('y',-1))}
R=add(d(mul(RHO,U),'x'),d(mul(RHO,V),'y'))
t0=time.time(); w=poly.witness(add(Qrho,R,-1)); print('continuity','EQUAL' if not w else 'DIFF %d: '%len(w)+poly.fmt(w,3)[:500],'%.1fs'%(time.time()-t0))
