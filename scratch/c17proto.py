import sys, os; sys.path.insert(0,'/verif')
from sa import ir, terms
from sa.ast import strip
prog=ir.load(os.environ.get('MASA_REPO','/repo'))
def wrapper_eval(prog, f):
    E=terms.Evaluator(prog, inline=False)
    def hook(ev,e,n,obj,args_e,P,fr):
        q=e.get('q') or ''
        if not q.startswith('MASA::') or not e.get('inrepo'):
            return None
        callee=prog.by_q.get(q,[])
        args=tuple(ev.E(a,P,fr) for a in args_e)
        P.events.append(('call',(q,args,None,e.get('sig'),False),e.get('l')))
        ptypes=[p['t'] for p in callee[0].params] if len(callee)==1 else []
        for i,a in enumerate(args_e):
            t=ptypes[i] if i<len(ptypes) else ''
            out=None
            a0=strip(a,casts=True)
            if t.endswith('*') and not t.startswith('const ') and a0.get('k')=='un' and a0['op']=='&':
                out=a0['e']
            elif t.endswith('&') and not t.startswith('const ') and not t.endswith('&&'):
                out=a
            if out is not None:
                ev.assign(out, ('call','out:%s:%d'%(n,i),()), P, fr, e.get('l'))
        return ('call','repo:'+n,args)
    E.call_hook=hook
    outs=E.run(f)
    return E, list(outs)+[p for p in E.trace.exit_paths if p not in outs]
for name in sys.argv[1:]:
    f=[f for f in prog.fn_by_tu['cmasa.cpp'] if f.get('externc') and f.n==name][0]
    E,paths=wrapper_eval(prog,f)
    for o in paths:
        print(name,o.kind,[terms.fmt(c)[:60] for c in o.conds],'ret=',terms.fmt(o.ret)[:80] if o.ret else None)
        for e in o.events:
            print('    ',e[0], [terms.fmt(x)[:90] if isinstance(x,tuple) and x and isinstance(x[0],str) else str(x)[:120] for x in e[1:]])
