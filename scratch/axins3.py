import sys, time
sys.path.insert(0,'/verif'); sys.path.insert(0,'/verif/scratch')
from euler_exp import *
short='axi_cns'; cls='MASA::%s<double>'%short; coords=['r','z']
F={f:ev(cls,'eval_exact_'+f,coords) for f in ['rho','p','u','w']}
u,w=F['u'],F['w']
d=poly.diff; mul=poly.mul; add=poly.add
r=S('r'); rinv=S('r',-1); mu=S('mu')
def div(fr,fz): return add(mul(rinv,d(mul(r,fr),'r')), d(fz,'z'))
divu=div(u,w); lam=poly.scale(mu,Fraction(-2,3))
trr=add(poly.scale(mul(mu,d(u,'r')),2),mul(lam,divu)); tzz=add(poly.scale(mul(mu,d(w,'z')),2),mul(lam,divu))
tqq=add(poly.scale(mul(mu,mul(u,rinv)),2),mul(lam,divu)); trz=mul(mu,add(d(u,'z'),d(w,'r')))
fr=add(div(trr,trz), mul(tqq,rinv),-1); fz=div(trz,tzz)
# identity: mu*(lap u + 1/3 grad div u)
lap_r=add(add(add(d(d(u,'r'),'r'),mul(rinv,d(u,'r'))),mul(mul(rinv,rinv),u),-1),d(d(u,'z'),'z'))
lap_z=add(add(d(d(w,'r'),'r'),mul(rinv,d(w,'r'))),d(d(w,'z'),'z'))
gr=add(lap_r,poly.scale(d(divu,'r'),Fraction(1,3))); gz=add(lap_z,poly.scale(d(divu,'z'),Fraction(1,3)))
print('identity r:',poly.is_zero(add(fr,mul(mu,gr),-1)),' z:',poly.is_zero(add(fz,mul(mu,gz),-1)))
