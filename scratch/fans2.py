import sys, time
sys.path.insert(0,'/verif')
from sa import ir, terms, poly, residual as rs, catalogue as cat
from fractions import Fraction
p=ir.load()
S=poly.sym; add,mul,d=poly.add,poly.mul,poly.diff
scalar='double'; cls='MASA::fans_sa_transient_free_shear<double>'
co=['x','y','t']
import os
HYP=os.environ.get('HYP','')
FZ={'RHO':'@rho','U':'@u','V':'@v','P':'@p','NU_SA':'@nu'}
if HYP=='frozen_fv1': FZ['f_v1']='@fv1'
Q={};TR={}
for eq in ['rho','rho_u','rho_v','rho_e','nu']:
    Q[eq],fn,TR[eq]=rs.evaluator_poly(p,cls,scalar,'eval_q_'+eq,co,freeze=FZ,want_trace=True); print(eq,len(Q[eq]), sorted(TR[eq].frozen_values))
# field definitions from the local copies
defs={}
for eq in TR:
    for n,vals in TR[eq].frozen_values.items():
        for v in vals:
            pl=poly.from_term(v)
            if n in defs: assert defs[n]==pl,(n,eq)
            defs[n]=pl
print({k:len(v) for k,v in defs.items()})
# ---- oracle in jets
J={'@rho','@u','@v','@p','@nu'}
poly.JETS=set(J); poly.JET_COORDS=('x','y','t')
rho,u,v,P,nu=[S(n) for n in ['@rho','@u','@v','@p','@nu']]
mu=S('mu')
chi=mul(mul(rho,nu),S('mu',-1)); chi3=poly.ipow(chi,3)
fv1=mul(chi3,poly.inverse(add(chi3,poly.ipow(S('c_v1'),3))))
if HYP=='frozen_fv1': fv1=S('@fv1')
mut=mul(mul(rho,nu),fv1); mueff=add(mu,mut)
vel=[u,v]; sp=['x','y']
divu=add(d(u,'x'),d(v,'y'))
def dvisc(A,xj):
    # d/dxj (mueff * A) with f_v1 treated as a constant under differentiation (hypothesis)
    if HYP=='nofv1deriv':
        return add(mul(mu,d(A,xj)), mul(fv1,d(mul(mul(rho,nu),A),xj)))
    return d(mul(mueff,A),xj)
def tauhat(i,j):
    t=add(d(vel[i],sp[j]),d(vel[j],sp[i]))
    if i==j: t=add(t,poly.scale(divu,Fraction(-2,3)))
    return t
def tau(i,j,m):
    t=mul(m,add(d(vel[i],sp[j]),d(vel[j],sp[i])))
    if i==j: t=add(t,mul(poly.scale(m,Fraction(-2,3)),divu))
    return t
R={}
R['rho']=add(d(rho,'t'),add(d(mul(rho,u),'x'),d(mul(rho,v),'y')))
for i in range(2):
    r=d(mul(rho,vel[i]),'t')
    for j in range(2): r=add(r,d(mul(mul(rho,vel[i]),vel[j]),sp[j]))
    r=add(r,d(P,sp[i]))
    for j in range(2): r=add(r,dvisc(tauhat(i,j),sp[j]),-1)
    R['rho_'+'uv'[i]]=r
# SA
om=add(d(u,'y'),d(v,'x'),-1)
Sv=poly.atom(('fn','sqrt',(poly.canon(mul(om,om)),)))
sa=add(d(mul(rho,nu),'t'),add(d(mul(mul(rho,u),nu),'x'),d(mul(mul(rho,v),nu),'y')))
diff_=add(d(mul(add(mu,mul(rho,nu)),d(nu,'x')),'x'),d(mul(add(mu,mul(rho,nu)),d(nu,'y')),'y'))
g2=add(mul(d(nu,'x'),d(nu,'x')),mul(d(nu,'y'),d(nu,'y')))
sa=add(sa,mul(poly.inverse(S('sigma')),add(diff_,mul(mul(S('c_b2'),rho),g2))),-1)
sa=add(sa,mul(mul(mul(S('c_b1'),Sv),rho),nu),-1)
R['nu']=sa
# energy
cv=mul(S('R'),poly.inverse(add(S('Gamma'),poly.const(-1)))); cp=mul(S('Gamma'),cv)
T=mul(P,poly.inverse(mul(rho,S('R'))))
ke=poly.scale(add(mul(u,u),mul(v,v)),Fraction(1,2))
E=add(mul(cv,T),ke); H=add(E,mul(P,poly.inverse(rho)))
en=d(mul(rho,E),'t')
kcond=mul(cp,add(mul(mu,poly.inverse(S('Pr'))),mul(mut,poly.inverse(S('Pr_t')))))
for j in range(2):
    en=add(en,d(mul(mul(rho,vel[j]),H),sp[j]))
    work={}
    for i in range(2): work=add(work,mul(tau(i,j,mueff),vel[i]))
    wh={}
    for i in range(2): wh=add(wh,mul(tauhat(i,j),vel[i]))
    en=add(en,dvisc(wh,sp[j]),-1)
    if HYP=='nofv1deriv':
        en=add(en,add(mul(mul(cp,mul(mu,poly.inverse(S('Pr')))),d(d(T,sp[j]),sp[j])), mul(mul(mul(cp,poly.inverse(S('Pr_t'))),fv1),d(mul(mul(rho,nu),d(T,sp[j])),sp[j]))),-1)
    else:
        en=add(en,d(mul(kcond,d(T,sp[j])),sp[j]),-1)
R['rho_e']=en
# substitute derivative jets by explicit derivatives of the field definitions
poly.JETS=set(); poly.JET_COORDS=()
base={'@rho':defs['RHO'],'@u':defs['U'],'@v':defs['V'],'@p':defs['P'],'@nu':defs['NU_SA']}
def jetpoly(name):
    b,suf=name.rsplit('_',1) if '_' in name and name.rsplit('_',1)[0] in base else (name,'')
    if b not in base or not suf: return None
    q=base[b]
    for c in suf: q=d(q,c)
    return q
def subst_atom(a):
    if a[0]=='sym': return a
    if a[0] in ('sin','cos','inv'):
        q=subst(poly.uncanon(a[1]))
        if a[0]=='inv': return None  # handled by caller via inverse()
        return (a[0],poly.canon(poly.reduce_trig(q)))
    if a[0]=='fn' and a[1]=='sqrt': return None
    if a[0]=='fn': return ('fn',a[1],tuple(poly.canon(poly.reduce_trig(subst(poly.uncanon(c)))) for c in a[2]))
    return a
def subst(pl):
    out={}
    for m,c in pl.items():
        term={():c}
        for a,e in m:
            rep=jetpoly(a[1]) if a[0]=='sym' else None
            if rep is not None:
                term=mul(term,poly.ipow(rep,e))
            elif a[0]=='inv':
                term=mul(term,poly.ipow(poly.inverse(subst(poly.uncanon(a[1]))),e))
            elif a[0]=='fn' and a[1]=='sqrt':
                term=mul(term,poly.ipow(poly.sqrt_of(subst(poly.uncanon(a[2][0]))),e))
            else:
                term=mul(term,{((subst_atom(a),e),):Fraction(1)})
        out=add(out,term)
    return out
for eq in ['rho','rho_u','rho_v','nu','rho_e']:
    t0=time.time()
    Rx=subst(R[eq])
    w=poly.witness(add(Q[eq],Rx,-1))
    print(eq,'EQUAL' if not w else 'DIFF %d terms: '%len(w)+poly.fmt(w,8)[:1400],'%.1fs'%(time.time()-t0))
