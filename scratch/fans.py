import sys, time
sys.path.insert(0,'/verif')
from sa import ir, terms, poly, residual as rs, catalogue as cat
from fractions import Fraction
p=ir.load()
S=poly.sym; add,mul,d=poly.add,poly.mul,poly.diff
scalar='double'; cls='MASA::fans_sa_transient_free_shear<double>'
co=['x','y','t']
def tm(amp,fn,a): return poly.from_term(('mul',(('sym',amp),('call',fn,(('div',('mul',(('sym',a),('sym','pi'),('sym','t'))),('sym','L')),)))))
F,_=rs.fields(p,cls,scalar,['rho','u','v','p'],['x','y'])
F['rho']=add(F['rho'],tm('rho_t','sin','a_rhot')); F['u']=add(F['u'],tm('u_t','cos','a_ut')); F['v']=add(F['v'],tm('v_t','sin','a_vt')); F['p']=add(F['p'],tm('p_t','cos','a_pt'))
nu,_=rs.evaluator_poly(p,cls,scalar,'eval_exact_nu',co)
rho,u,v,P=F['rho'],F['u'],F['v'],F['p']
Q={}
for eq in ['rho','rho_u','rho_v','rho_e','nu']:
    Q[eq],_=rs.evaluator_poly(p,cls,scalar,'eval_q_'+eq,co); print(eq,len(Q[eq]))
mu=S('mu')
chi=mul(mul(rho,nu),S('mu',-1))
chi3=poly.ipow(chi,3)
fv1=mul(chi3,poly.inverse(add(chi3,poly.ipow(S('c_v1'),3))))
mut=mul(mul(rho,nu),fv1)
mueff=add(mu,mut)
vel=[u,v]; sp=['x','y']
divu=add(d(u,'x'),d(v,'y'))
def tau(i,j,m):
    t=mul(m,add(d(vel[i],sp[j]),d(vel[j],sp[i])))
    if i==j: t=add(t,mul(poly.scale(m,Fraction(-2,3)),divu))
    return t
R={}
R['rho']=add(d(rho,'t'),add(d(mul(rho,u),'x'),d(mul(rho,v),'y')))
for i in range(2):
    r=d(mul(rho,vel[i]),'t')
    for j in range(2): r=add(r,d(mul(mul(rho,vel[i]),vel[j]),sp[j]))
    r=add(r,d(P,sp[i]))
    for j in range(2): r=add(r,d(tau(i,j,mueff),sp[j]),-1)
    R['rho_'+'uv'[i]]=r
for eq in ['rho','rho_u','rho_v']:
    t0=time.time(); w=poly.witness(add(Q[eq],R[eq],-1))
    print(eq,'EQUAL' if not w else 'DIFF %d terms: '%len(w)+poly.fmt(w,3)[:300],'%.1fs'%(time.time()-t0))
