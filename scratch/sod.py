import sys
sys.path.insert(0,'/verif')
from sa import ir, terms, poly, catalogue as cat
p=ir.load()
cls='MASA::sod_1d<double>'
for name in ['eval_q_rho','eval_q_rho_u']:
    fn=[f for f in p.methods_of(cls) if f.n==name and len(f.params)==2][0]
    E=terms.Evaluator(p,dyn_class=cls)
    def hook(e,opath,n,args):
        if n=='rtbis': 
            a=args(); return ('call','@root',a[:2])
        return None
    E.opaque_hook=hook
    outs=E.run(fn,arg_names=['x','t'])
    print(name,len(outs))
    for o in outs:
        print('  ',[terms.fmt(c)[:80] for c in o.conds],'=>',terms.fmt(o.ret)[:160])
