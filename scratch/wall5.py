import sys
src=open('/verif/scratch/wall4.py').read().split("for eq in sys.argv[1:]")[0]
sys_argv=sys.argv
exec(src)
eq=sys_argv[1]
Q,fn,tr=ev('eval_q_'+eq)
D=add(Q,Rr[eq],-1)
print('D',len(D))
atoms={}
for m in D:
    for a,e in m:
        if a[0] in ('inv','fn'):
            k=poly.fmt_atom(a)[:150]
            atoms[k]=(min(atoms.get(k,(0,0))[0],e), max(atoms.get(k,(0,0))[1],e))
for k,v in atoms.items(): print(v,k)
