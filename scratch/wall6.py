import sys, time
sys.path.insert(0,'/verif')
from sa import ir, terms, poly, residual as rs, catalogue as cat
from sa.checks import c05
from fractions import Fraction
p=ir.load()
S=poly.sym; add,mul,d=poly.add,poly.mul,poly.diff; inv=poly.inverse
scalar='double'; cls='MASA::fans_sa_steady_wall_bounded<double>'
CONST={k:k for k in ['A','u_inf','C1','T_aw','rho_w','F_c','nu_w','rho_inf','c_w1','cp']}
FS={'u_tau':'u_tau','y_plus':'yp','u_eq_plus':'uep','d_ueqplus_yplus':'dup','u_eq':'u_eq','T':'T'}
CL={'f_w':'@f_w','S_sa':'@S_sa','Sm':'@Sm','r':'@r','g':'@g','Omega':'@Omega'}
FZ=dict(CONST); FZ.update(FS); FZ.update(CL)
# one-level definitions
up=[f for f in p.methods_of(cls) if f.n=='update'][0]
members=[x['n'] for x in p.records[cls]['fields']]
E=terms.Evaluator(p, dyn_class=cls, scalar=scalar); E.freeze={m:FZ.get(m,m) for m in members}
E.run(up, arg_names=['x','y'])
defs={k:poly.from_term(v[0]) for k,v in E.trace.frozen_values.items() if k in ('u_eq_plus','d_ueqplus_yplus','u_eq','y_plus','T','U')}
c=Fraction(-1,14)
R={}
R[('u_tau','x')]=mul(poly.const(c),mul(S('u_tau'),S('x',-1)))
R[('yp','x')]=mul(poly.const(c),mul(S('yp'),S('x',-1))); R[('yp','y')]=mul(S('yp'),S('y',-1))
poly.SYM_RULES=dict(R)
# lemma: dup == d(uep)/d(yp)
lem=poly.witness(add(d(defs['u_eq_plus'],'yp'), defs['d_ueqplus_yplus'], -1))
print('lemma dup = d uep/d yp:', 'OK' if not lem else poly.fmt(lem,3))
d2=d(defs['d_ueqplus_yplus'],'yp')
for co in ('x','y'):
    R[('uep',co)]=mul(S('dup'),R[('yp',co)]) if ('yp',co) in R else {}
    R[('dup',co)]=mul(d2,R[('yp',co)]) if ('yp',co) in R else {}
poly.SYM_RULES=dict(R)
for co in ('x','y'):
    R[('u_eq',co)]=d(mul(S('u_tau'),S('uep')),co)
poly.SYM_RULES=dict(R)
# T = T(U), U = (u_inf/A) sin(A u_eq/u_inf): rule by the chain rule through the one-level definitions
Udef=defs['U']
Tdef=poly.from_term(E.trace.frozen_values['T'][0], {'U':Udef})
for co in ('x','y'):
    R[('T',co)]=d(Tdef,co)
poly.SYM_RULES=dict(R)
print({k:poly.fmt(v,4)[:100] for k,v in R.items()})
def ev(name):
    return rs.evaluator_poly(p,cls,scalar,name,['x','y'],freeze=FZ,want_trace=True)
F={}
for f in ['rho','u','v','p','nu','t']:
    F[f],_,_=ev('eval_exact_'+f); print(f,len(F[f]), poly.fmt(F[f],2)[:150])
Rr=c05.fans_oracle(['x','y'],None,F=F,wall=(S('y'),S('@f_w'),S('c_w1')),S_override=add(S('@Sm'),S('@Omega')))
for eq in sys.argv[1:] or ['rho','nu','rho_u','rho_v','rho_e']:
    t0=time.time()
    Q,fn,tr=ev('eval_q_'+eq)
    print(eq,'Q',len(Q),'R',len(Rr[eq]),'%.1fs'%(time.time()-t0)); sys.stdout.flush()
    try:
        w=poly.witness(add(Q,Rr[eq],-1))
        print(eq,'EQUAL' if not w else 'DIFF %d: '%len(w)+poly.fmt(w,3)[:400],'%.1fs'%(time.time()-t0))
    except Exception as ex: print(eq,'EXC',repr(ex)[:200])
    sys.stdout.flush()
