import sys, time
sys.path.insert(0,'/verif'); sys.path.insert(0,'/verif/scratch')
from euler_exp import *
cls='MASA::burgers_equation<double>'; coords=['x','y','t']
u=ev(cls,'eval_exact_u',coords); v=ev(cls,'eval_exact_v',coords)
d=poly.diff; mul=poly.mul; add=poly.add
Ru=add(add(d(u,'t'),d(mul(u,u),'x')),d(mul(u,v),'y'))
Rv=add(add(d(v,'t'),d(mul(u,v),'x')),d(mul(v,v),'y'))
for n,R in (('u',Ru),('v',Rv)):
    Q=ev(cls,'eval_q_'+n,coords); D=poly.add(Q,R,-1)
    print('burgers',n,'EQUAL' if poly.is_zero(D) else 'DIFF '+poly.fmt(poly.reduce_trig(D),4))
u2=ev(cls,'eval_exact_u',['x','y']); v2=ev(cls,'eval_exact_v',['x','y'])
# two-argument forms are the t-independent part of the three-argument ones: drop every monomial that depends on t
def tfree(p): return {m:c for m,c in p.items() if not poly.depends({m:c},'t')}
print('2-arg u == t-independent part:',poly.is_zero(poly.add(u2,tfree(u),-1)),' v:',poly.is_zero(poly.add(v2,tfree(v),-1)))
cls='MASA::laplace_2d<double>'
phi=ev(cls,'eval_exact_phi',['x','y']); f=ev(cls,'eval_q_f',['x','y'])
lap=add(d(d(phi,'x'),'x'),d(d(phi,'y'),'y'))
print('laplace', 'EQUAL' if poly.is_zero(add(f,lap,-1)) else 'DIFF '+poly.fmt(add(f,lap,-1)), '| f=',poly.fmt(f,8))
