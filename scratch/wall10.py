import sys; sys.path.insert(0,'/verif')
from sa import ir, terms, poly
from fractions import Fraction
p=ir.load()
S=poly.sym; add,mul,d=poly.add,poly.mul,poly.diff
cls='MASA::fans_sa_steady_wall_bounded<double>'
up=[f for f in p.methods_of(cls) if f.n=='update'][0]
CONST={k:k for k in ['A','u_inf','C1','T_aw','rho_w','F_c','nu_w','rho_inf','c_w1']}
E=terms.Evaluator(p, dyn_class=cls, scalar='double'); E.freeze=dict(CONST)
o=E.run(up, arg_names=['x','y'])
ut=poly.from_term(o[0].mem['u_tau'])
print('u_tau =',poly.fmt(ut,3)[:300])
D=d(ut,'x')
print('d/dx =',poly.fmt(D,3)[:400])
lem=add(mul(poly.scale(S('x'),14),D),ut)
print('lemma raw', poly.fmt(lem,4)[:400])
print('witness', poly.fmt(poly.witness(lem),4)[:300])
