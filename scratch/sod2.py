import sys
sys.path.insert(0,'/verif')
from sa import ir, terms, poly
from sa.checks import c08
p=ir.load()
cls='MASA::sod_1d<double>'
fn,paths,roots=c08.sod_paths(p,cls,'double','eval_q_rho')
order=[]
for conds,ret in paths:
    for c in conds:
        cc=c[1] if c[0]=='not' else c
        b=poly.canon(poly.witness(poly.from_term(cc[3])))
        if b not in order: order.append(b)
print(len(order))
fn,paths,roots=c08.sod_paths(p,cls,'double','eval_q_rho_u')
for conds,ret in paths:
    facts=[]
    for c in conds:
        cc=c[1] if c[0]=='not' else c
        b=poly.canon(poly.witness(poly.from_term(cc[3])))
        facts.append((order.index(b) if b in order else None, c[0]!='not'))
    feas=[r for r in range(5) if all((r<=i)==tv for i,tv in facts)]
    print(facts, feas, terms.fmt(ret)[:60])
