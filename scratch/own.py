import sys, time; sys.path.insert(0,'/verif')
from sa import ir, terms
from sa.ast import strip
import os
prog=ir.load(os.environ.get('MASA_REPO','/repo'))
scalar='double'
rq=[r for r in prog.records if r.endswith('MasterMS<%s>'%scalar)][0]
im=[f for f in prog.methods_of(rq) if f.n=='init_mms'][0]
E=terms.Evaluator(prog, scalar=scalar, noreturn=('masa_exit',), opaque=('list_mms',))
E.vecmodel=True; E.unroll_paths=True
def hook(ev, e, n, obj, args_e, P, fr):
    if n=='return_name' and obj is not None and len(args_e)==1:
        o=ev.E(obj,P,fr)
        a=strip(args_e[0],casts=True)
        if a.get('k')=='un' and a['op']=='&':
            ev.assign(a['e'], ('call','name_of',(o,)), P, fr, e.get('l'))
            return terms.num(0)
    if n=='masa_map' and len(args_e)==1:
        a=strip(args_e[0],casts=True)
        if a.get('k')=='un' and a['op']=='&':
            old=ev.E(a['e'],P,fr)
            ev.assign(a['e'], ('call','masa_map',(old,)), P, fr, e.get('l'))
            return terms.num(0)
    return None
E.call_hook=hook
t=time.time()
outs=E.run(im)
print(len(outs), len(E.trace.exit_paths), time.time()-t)
for o in outs[:3]:
    print(o.kind, [terms.fmt(c)[:100] for c in o.conds][-4:])
    print([ (e[0], terms.fmt(e[1])[:80] if isinstance(e[1],tuple) and e[0] in('delete',) else str(e[1])[:80]) for e in o.events if e[0]!='new'][-8:])
    print({k:terms.fmt(v)[:150] for k,v in o.mem.items()})
