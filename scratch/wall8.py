import sys
src=open('/verif/scratch/wall6.py').read().split("def ev(name):")[0]
exec(src)
# one-level definitions of the second-derivative members, other members expanded except the frozen set
allm={k:v[0] for k,v in E.trace.frozen_values.items()}
def expand(name, keep):
    t=allm[name]
    env={}
    for m_ in members:
        if m_ in keep or m_==name or m_ not in allm: continue
    return t
# evaluate update() again with only FZ frozen so that members expand down to the frozen symbols
E2=terms.Evaluator(p, dyn_class=cls, scalar=scalar); E2.freeze=dict(FZ)
o2=E2.run(up, arg_names=['x','y'])
mem=o2[0].mem
def P(name): return poly.from_term(mem[name])
U=P('U'); V=P('V'); Tm=S('T'); ueq=S('u_eq')
checks={'D2ueqDx2':d(d(ueq,'x'),'x'),'D2ueqDy2':d(d(ueq,'y'),'y'),
        'D2uDx2':d(d(U,'x'),'x'),'D2uDy2':d(d(U,'y'),'y'),'D2uDxy':d(d(U,'x'),'y'),
        'D2vDx2':d(d(V,'x'),'x'),'D2vDy2':d(d(V,'y'),'y'),'D2vDxy':d(d(V,'x'),'y'),
        'D2TDx2':d(d(Tm,'x'),'x'),'D2TDy2':d(d(Tm,'y'),'y')}
for k,want in checks.items():
    got=P(k)
    w=poly.witness(add(got,want,-1))
    print(k,'OK' if not w else 'DIFF %d: %s'%(len(w),poly.fmt(w,3)[:300]))
