import sys, time
sys.path.insert(0,'/verif')
from sa import ir, terms, poly, catalogue as cat
from fractions import Fraction
p=ir.load()
S=poly.sym
def ev(cls,name,coords):
    sig='double (%s)'%', '.join(['double']*len(coords))
    owner,m=cat.resolve_virtual(p,cls,name,sig)
    if owner is None or owner==cat.BASE%'double': return None
    fn=p.fn(owner+'::'+name,sig)[0]
    E=terms.Evaluator(p,dyn_class=cls)
    outs=E.run(fn,arg_names=coords)
    assert len(outs)==1, (name,len(outs))
    return poly.from_term(outs[0].ret)
def euler_residuals(F, space, t, gamma='Gamma'):
    rho,p_=F['rho'],F['p']
    vel=[F[n] for n in ['u','v','w'][:len(space)]]
    d=poly.diff; mul=poly.mul; add=poly.add
    ke={}
    for ui in vel: ke=add(ke,mul(ui,ui))
    rhoE=add(mul(p_,poly.inverse(add(S(gamma),poly.const(-1)))), poly.scale(mul(rho,ke),Fraction(1,2)))
    rhoH=add(rhoE,p_)
    R={}
    m={}
    if t: m=d(rho,t)
    for ui,xi in zip(vel,space): m=add(m,d(mul(rho,ui),xi))
    R['rho']=m
    for i,(ui,xi) in enumerate(zip(vel,space)):
        r={}
        if t: r=d(mul(rho,ui),t)
        for uj,xj in zip(vel,space): r=add(r,d(mul(mul(rho,ui),uj),xj))
        r=add(r,d(p_,xi))
        R['rho_'+'uvw'[i]]=r
    e={}
    if t: e=d(rhoE,t)
    for uj,xj in zip(vel,space): e=add(e,d(mul(rhoH,uj),xj))
    R['rho_e']=e
    return R
if __name__=='__main__':
  for short,space,t,names in [('euler_1d',['x'],None,{}),('euler_2d',['x','y'],None,{}),('euler_3d',['x','y','z'],None,{}),
      ('euler_transient_1d',['x'],'t',{}),('euler_transient_2d',['x','y'],'t',{'rho_u':'u','rho_v':'v','rho_e':'e'}),('euler_transient_3d',['x','y','z'],'t',{'rho_u':'u','rho_v':'v','rho_w':'w','rho_e':'e'})]:
    cls='MASA::%s<double>'%short
    coords=space+([t] if t else [])
    F={f:ev(cls,'eval_exact_'+f,coords) for f in ['rho','p']+['u','v','w'][:len(space)]}
    t0=time.time()
    R=euler_residuals(F,space,t)
    for eq,r in R.items():
        Q=ev(cls,'eval_q_'+names.get(eq,eq),coords)
        if Q is None: print(short,eq,'no source'); continue
        try:
            z=poly.is_zero(poly.add(Q,r,-1))
        except Exception as ex: z='EXC %r'%ex
        print(short,eq,'EQUAL' if z is True else ('DIFF '+poly.fmt(poly.reduce_trig(poly.add(Q,r,-1)),3) if z is False else z), len(Q), '%.1fs'%(time.time()-t0))

def axi_euler_residuals(F, t, gamma='Gamma'):
    # coordinates r (radial, velocity u) and z (axial, velocity w); cylindrical divergence (1/r) d(r f)/dr + d g/dz
    rho,p_,u,w=F['rho'],F['p'],F['u'],F['w']
    d=poly.diff; mul=poly.mul; add=poly.add
    r=S('r'); rinv=S('r',-1)
    def div(fr,fz): return add(mul(rinv,d(mul(r,fr),'r')), d(fz,'z'))
    ke=add(mul(u,u),mul(w,w))
    rhoE=add(mul(p_,poly.inverse(add(S(gamma),poly.const(-1)))), poly.scale(mul(rho,ke),Fraction(1,2)))
    rhoH=add(rhoE,p_)
    R={}
    R['rho']=add(d(rho,t) if t else {}, div(mul(rho,u),mul(rho,w)))
    R['rho_u']=add(add(d(mul(rho,u),t) if t else {}, div(mul(mul(rho,u),u),mul(mul(rho,u),w))), d(p_,'r'))
    R['rho_w']=add(add(d(mul(rho,w),t) if t else {}, div(mul(mul(rho,w),u),mul(mul(rho,w),w))), d(p_,'z'))
    R['rho_e']=add(d(rhoE,t) if t else {}, div(mul(rhoH,u),mul(rhoH,w)))
    return R
if __name__=='__main__':
  for short,t,names in [('axi_euler',None,{}),('axi_euler_transient','t',{'rho_u':'u','rho_w':'w','rho_e':'e'})]:
    cls='MASA::%s<double>'%short
    coords=['r','z']+([t] if t else [])
    F={f:ev(cls,'eval_exact_'+f,coords) for f in ['rho','p','u','w']}
    R=axi_euler_residuals(F,t)
    for eq,r in R.items():
        Q=ev(cls,'eval_q_'+names.get(eq,eq),coords)
        D=poly.add(Q,r,-1)
        z=poly.is_zero(D)
        print(short,eq,'EQUAL' if z else 'DIFF '+poly.fmt(poly.reduce_trig(D),3), len(Q))
