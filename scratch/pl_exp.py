import sys, time
sys.path.insert(0,'/verif')
from sa import ir, terms, poly, residual as rs, catalogue as cat
from fractions import Fraction
p=ir.load()
S=poly.sym; add,mul,d=poly.add,poly.mul,poly.diff
scalar='double'
cls='MASA::navierstokes_4d_compressible_powerlaw<double>'
coords=['x','y','z','t']
PRIMS={'rho','u','v','w','T'}
def hook(e,opath,n,args):
    if opath in PRIMS and (n=='operator()' or n.startswith('_')):
        a=args()
        assert a==tuple(('sym',c) for c in coords), a
        return ('sym', opath+('' if n=='operator()' else n))
    return None
poly.JETS=set(PRIMS); poly.JET_COORDS=('x','y','z','t')
Q={}
for eq in ['rho','rho_u','rho_v','rho_w','rho_e']:
    Q[eq],fn=rs.evaluator_poly(p,cls,scalar,'eval_q_'+eq,coords,hook=hook)
    print(eq,len(Q[eq]))
rho,u,v,w,T=[S(n) for n in ['rho','u','v','w','T']]
R_=S('R'); gam=S('gamma')
P=mul(mul(rho,R_),T)
b=mul(T,S('T_r',-1))
mu=mul(S('mu_r'),poly.atom(('fn','pow',(poly.canon(b),poly.canon(S('beta'))))))
lam=mul(mul(S('lambda_r'),S('mu_r',-1)),mu); kap=mul(mul(S('kappa_r'),S('mu_r',-1)),mu)
vel=[u,v,w]; sp=['x','y','z']
ke={}
for ui in vel: ke=add(ke,mul(ui,ui))
e=add(mul(mul(R_,T),poly.inverse(add(gam,poly.const(-1)))),poly.scale(ke,Fraction(1,2)))
divu={}
for ui,xi in zip(vel,sp): divu=add(divu,d(ui,xi))
tau=[[add(mul(mu,add(d(vel[i],sp[j]),d(vel[j],sp[i]))), mul(lam,divu) if i==j else {}) for j in range(3)] for i in range(3)]
R={}
m=d(rho,'t')
for ui,xi in zip(vel,sp): m=add(m,d(mul(rho,ui),xi))
R['rho']=m
for i in range(3):
    r=d(mul(rho,vel[i]),'t')
    for j in range(3): r=add(r,d(mul(mul(rho,vel[i]),vel[j]),sp[j]))
    r=add(r,d(P,sp[i]))
    for j in range(3): r=add(r,d(tau[i][j],sp[j]),-1)
    R['rho_'+'uvw'[i]]=r
en=d(mul(rho,e),'t')
for j in range(3):
    en=add(en,d(mul(mul(rho,vel[j]),e),sp[j]))
    en=add(en,d(mul(P,vel[j]),sp[j]))
    en=add(en,d(mul(kap,d(T,sp[j])),sp[j]),-1)
    work={}
    for i in range(3): work=add(work,mul(tau[i][j],vel[i]))
    en=add(en,d(work,sp[j]),-1)
R['rho_e']=en
for eq in Q:
    t0=time.time()
    D=add(Q[eq],R[eq],-1)
    z=poly.is_zero(D)
    print(eq,'EQUAL' if z else 'DIFF '+poly.fmt(poly.reduce_trig(D),4),'%.1fs'%(time.time()-t0))
poly.JETS=set(); poly.JET_COORDS=()
# primitive members vs derivatives of operator()
prim='MASA::nsctpl::primitive<double>'
def member_poly(name):
    f=[f for f in p.functions if f.get('rec')==prim and f.n==name]
    assert len(f)==1,(name,len(f))
    E=terms.Evaluator(p,scalar=scalar); outs=E.run(f[0],arg_names=coords)
    return poly.from_term(outs[0].ret)
base=member_poly('operator()')
for suf in ['t','x','y','z','xx','xy','xz','yy','yz','zz']:
    want=base
    for c in suf: want=d(want,c)
    got=member_poly('_'+suf)
    print('_'+suf, 'EQUAL' if poly.is_zero(add(got,want,-1)) else 'DIFF', len(got))
