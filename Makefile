# MANIFEST.setup_cmd: builds the libTooling extractor from files on disk only
LLVM_CXXFLAGS := $(shell llvm-config-14 --cxxflags)
LLVM_LIBS := /usr/lib/llvm-14/lib/libclang-cpp.so.14 /usr/lib/llvm-14/lib/libLLVM-14.so

all: build/masa-ir

build/masa-ir: tools/masa-ir/masa_ir.cc
	mkdir -p build
	clang++ $(LLVM_CXXFLAGS) -fno-rtti -O1 $< -o $@ $(LLVM_LIBS)

clean:
	rm -rf build reports
.PHONY: all clean
