#!/bin/bash
# tools/mkworktree.sh <dir> : scratch git worktree of /repo at HEAD, configured like /repo (generated build files copied), ready for `make`
set -e
d=$1
git -C /repo worktree add -q --detach "$d" HEAD
rsync -a --ignore-existing --exclude='.git' --exclude='*.o' --exclude='*.lo' --exclude='*.la' --exclude='.libs' --exclude='.deps' --exclude='*.log' --exclude='*.trs' /repo/ "$d"/
# generated dependency dirs are needed by the Makefiles
for sub in src tests examples; do mkdir -p "$d/$sub/.deps"; done
cd "$d" && ./config.status -q >/dev/null 2>&1 || true
echo "worktree ready: $d"
