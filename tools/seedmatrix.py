#!/usr/bin/env python3
"""tools/seedmatrix.py <seedroot> [jobs]: for every <seedroot>/<Cxx>/out/<v>/patch.diff (or seeded/<id>/patch.diff) apply the
patch to a scratch copy of /repo/src and run every check on the copy (static only).  Prints which checks report violations."""
import os, sys, subprocess, tempfile, shutil, json, glob
from concurrent.futures import ThreadPoolExecutor
sys.path.insert(0, os.path.dirname(os.path.dirname(os.path.abspath(__file__))))
from sa import selftest
VERIF = os.path.dirname(os.path.dirname(os.path.abspath(__file__)))
CHECKS = ['C%02d' % i for i in range(1, 21)]

def run_seed(item):
    label, patch = item
    tmp = selftest.scratch_copy()
    out = tempfile.mkdtemp(prefix='masa-seed-out-')
    res = {}
    try:
        p = subprocess.run(['patch', '-p1', '-s', '--fuzz=3', '-d', tmp, '-i', patch], stdout=subprocess.PIPE, stderr=subprocess.STDOUT, text=True)
        if p.returncode != 0:
            return label, {'patch': 'FAILED ' + p.stdout[:100]}
        env = dict(os.environ, MASA_REPO=tmp, VCHECK_OUT=out)
        for c in CHECKS:
            r = subprocess.run([sys.executable, os.path.join(VERIF, 'vcheck'), c], stdout=subprocess.PIPE, stderr=subprocess.STDOUT, text=True, env=env)
            v = [l for l in r.stdout.splitlines() if l.startswith('VIOLATION')]
            first = [l for l in r.stdout.splitlines() if '] ' in l and '[' in l and not l.startswith(('KNOWN', 'VIOLATION'))]
            broken = [l for l in r.stdout.splitlines() if l.startswith('ANALYSIS-BROKEN')]
            if r.returncode != 0 or v:
                res[c] = {'rc': r.returncode, 'violations': len(v), 'first': (first[0] if first else (broken[0] if broken else ''))[:260]}
    finally:
        shutil.rmtree(tmp, ignore_errors=True)
        shutil.rmtree(out, ignore_errors=True)
    return label, res

def main():
    root = sys.argv[1]
    jobs = int(sys.argv[2]) if len(sys.argv) > 2 else 8
    items = []
    for p in sorted(glob.glob(os.path.join(root, '*', 'out', '*', 'patch.diff'))):
        parts = p.split(os.sep)
        items.append((parts[-4] + parts[-2], p))
    for p in sorted(glob.glob(os.path.join(root, '*', 'patch.diff'))):
        items.append((os.path.basename(os.path.dirname(p)), p))
    only = os.environ.get('ONLY')
    if only:
        items = [i for i in items if i[0] in only.split(',')]
    ck = os.environ.get('CHECKS')
    if ck:
        global CHECKS
        CHECKS = ck.split(',')
    with ThreadPoolExecutor(max_workers=jobs) as ex:
        results = dict(ex.map(run_seed, items))
    json.dump(results, open(os.environ.get('MATRIX_OUT', '/tmp/seedmatrix.json'), 'w'), indent=1)
    for label in sorted(results):
        r = results[label]
        print(label, ' '.join('%s(rc%d,v%d)' % (c, x['rc'], x['violations']) for c, x in sorted(r.items()) if c != 'patch') or ('-- NOT DETECTED --' if 'patch' not in r else r['patch']))
if __name__ == '__main__':
    main()
