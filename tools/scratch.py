#!/usr/bin/env python3
"""tools/scratch.py <patch.diff> <dir>: scratch copy of /repo/src (sources only) with the patch applied, for
MASA_REPO=<dir> VCHECK_OUT=/tmp/x ./vcheck Cnn.  Remove <dir> when done."""
import os, sys, shutil, subprocess
sys.path.insert(0, os.path.dirname(os.path.dirname(os.path.abspath(__file__))))
from sa import selftest
tmp = selftest.scratch_copy()
dst = sys.argv[2]
shutil.rmtree(dst, ignore_errors=True)
shutil.move(tmp, dst)
sys.exit(subprocess.run(['patch', '-p1', '-s', '--fuzz=3', '-d', dst, '-i', os.path.abspath(sys.argv[1])]).returncode)
