#!/usr/bin/env python3
"""tools/update_meta.py <matrix.json>: refresh detected_by / analysis_broken_in / first_report of seeded/*/meta.json from a seedmatrix run"""
import json, os, sys
d = json.load(open(sys.argv[1]))
base = os.path.join(os.path.dirname(os.path.dirname(os.path.abspath(__file__))), 'seeded')
for k in sorted(os.listdir(base)):
    mp = os.path.join(base, k, 'meta.json')
    if not os.path.exists(mp) or k not in d:
        continue
    m = json.load(open(mp))
    r = d[k]
    m['detected_by'] = sorted(c for c, x in r.items() if c != 'patch' and x.get('rc') == 1 and x.get('violations', 0) > 0)
    m['analysis_broken_in'] = sorted(c for c, x in r.items() if c != 'patch' and x.get('rc') == 2)
    m['first_report'] = {c: r[c]['first'] for c in m['detected_by']}
    if not m['detected_by']:
        m['not_detected_reason'] = m.get('not_detected_reason', 'see DESIGN section 9')
    json.dump(m, open(mp, 'w'), indent=1)
    print(k, m['detected_by'], m['analysis_broken_in'])
