#!/usr/bin/env python3
"""Regenerates MANIFEST.json from tables/manifest_src.json (one entry per claimed
property + not_applicable list).  Kept as a generator so the file is always valid."""
import json, os, sys
HERE = os.path.dirname(os.path.dirname(os.path.abspath(__file__)))
src = json.load(open(os.path.join(HERE, 'tables', 'manifest_src.json')))
checks = []
for c in src['checks']:
    pid = c['id']
    checks.append({
        'property_id': pid,
        'quick_cmd': './vcheck %s --tier quick' % pid,
        'thorough_cmd': './vcheck %s --tier thorough' % pid,
        'evidence_file': 'evidence/%s.json' % pid,
        'replay_cmd_template': './vcheck %s --replay {path}' % pid,
        'engine': 'masa-sa',
        'level_claimed': {'category': c.get('category', 'other'), 'text': c['text'], 'design_ref': c['design_ref']},
        'level_note': c['note'],
        'technique': c['technique'],
    })
m = {
    'version': 1,
    'setup_cmd': 'make -C /verif',
    'hooks': {
        'guard': 'MASA_VERIF',
        'enable': 'no hooks: every rule reads the unmodified source through the clang AST (no -DMASA_VERIF code exists in /repo)',
        'baseline_off_cmd': 'cd /repo && make -k check',
        'source_commits': [],
        'add_only': True,
    },
    'engines': [{
        'name': 'masa-sa',
        'path': 'vcheck',
        'serves_properties': [c['id'] for c in src['checks']],
        'kind_free_text': 'custom static analysis: clang-14 libTooling extractor (tools/masa-ir) over every TU of src/Makefile.am '
                          'with template instantiations -> JSON IR -> repository-specific rules in Python (sa/checks); '
                          'plus parsers for masa.f90 / masa.i; nothing is executed',
    }],
    'checks': checks,
    'notes': src.get('notes', ''),
    'not_applicable': src['not_applicable'],
}
json.dump(m, open(os.path.join(HERE, 'MANIFEST.json'), 'w'), indent=1)
print('MANIFEST.json: %d checks, %d not_applicable' % (len(checks), len(m['not_applicable'])))
