#!/usr/bin/env python3
"""tools/add_pairs.py <root> <confirm_results> <round> <id>...: copy matched pairs <root>/<id>/out/{good,bad} to seeded_refactor/<id>g and seeded/<id>b with meta.json"""
import os, shutil, json, re, sys
root, conf_file, rnd = sys.argv[1:4]
conf = {}
for l in open(conf_file):
    p = l.split()
    if p:
        conf[p[0]] = ' '.join(p[1:])
for id_ in sys.argv[4:]:
    prop = 'C' + id_[1:]
    for v, base, name in (('good', '/verif/seeded_refactor', id_ + 'g'), ('bad', '/verif/seeded', id_ + 'b')):
        src = '%s/%s/out/%s' % (root, id_, v)
        dst = '%s/%s' % (base, name)
        os.makedirs(dst, exist_ok=True)
        for fn in os.listdir(src):
            if fn in ('patch.diff', 'notes.md') or fn.startswith('demo.'):
                shutil.copy2(os.path.join(src, fn), dst)
        notes = open(os.path.join(src, 'notes.md')).read()
        title = [l for l in notes.splitlines() if l.strip()][0].lstrip('# ').strip()
        if v == 'good':
            meta = {'id': name, 'kind': 'behaviour-preserving refactoring (the "good" half of a matched pair; the "bad" half is seeded/%sb)' % id_, 'property': prop, 'summary': title[:200],
                    'origin': 'independent sub-agent, round %s (property text and list of earlier changes only, nothing from /verif)' % rnd,
                    'confirmed_in_scratch_worktree': conf.get(id_ + 'good', '?'), 'expected': 'every check exits 0 on the patched sources'}
        else:
            m = re.search(r'(?:needed|needs)[^\n]*manifest[^\n]*\n(.*?)(\n#|\Z)', notes, re.S | re.I)
            needs = ' '.join(m.group(1).split())[:400] if m else ''
            meta = {'id': name, 'property': prop, 'summary': title[:200], 'needs_to_manifest': needs,
                    'origin': 'written by an independent sub-agent (round %s, matched pair: the behaviour-preserving twin is seeded_refactor/%sg) given only the text of the property, the list of changes already tried, and a scratch worktree' % (rnd, id_),
                    'confirmed_in_scratch_worktree': conf.get(id_ + 'bad', '?'),
                    'what_was_run': 'tools/confirm_seed.sh: git apply, make, make -k check (all pass), shared demo exits non-zero with this patch and 0 without it (and 0 with the twin)',
                    'detected_by': [], 'analysis_broken_in': [], 'first_report': {}}
        json.dump(meta, open(os.path.join(dst, 'meta.json'), 'w'), indent=1)
        print('added', dst)
