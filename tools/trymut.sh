#!/bin/bash
# usage: tools/trymut.sh <prop> <file> <sed-expr>   (development aid: apply an edit to /repo, run the check, undo)
prop=$1; file=$2; expr=$3
cd /repo && sed -i -E "$expr" "$file" && git diff --stat | tail -1
cd /verif && ./vcheck $prop 2>&1 | grep -v conda | grep -v "^KNOWN" | tail -${4:-6}
cd /repo && git checkout -- "$file"
