#!/opt/veriftools/pyvenv/bin/python
import json,jsonschema,glob,sys,os
H=os.path.dirname(os.path.dirname(os.path.abspath(__file__)))
jsonschema.validate(json.load(open(H+'/MANIFEST.json')),json.load(open('/root/.vp/MANIFEST.schema.json')))
es=json.load(open('/root/.vp/EVIDENCE.schema.json'))
for f in sorted(glob.glob(H+'/evidence/*.json')):
    jsonschema.validate(json.load(open(f)),es)
print('manifest + %d evidence files valid'%len(glob.glob(H+'/evidence/*.json')))
