#!/bin/bash
# tools/run_on_patch.sh <patch.diff> [checks...] : apply a seeded change to /repo, run the checks, undo. Prints which checks report a violation.
patch=$1; shift
checks=${@:-C01 C02 C03 C04 C05 C06 C07 C08 C09 C10 C11 C12 C13 C14 C15 C16 C17 C18 C19 C20}
cd /repo && git apply $patch || { echo "patch does not apply"; exit 2; }
cd /verif
first=$(echo $checks | awk '{print $1}')
./vcheck $first > /tmp/rop_$first.out 2>&1; echo "$first exit=$?" > /tmp/rop_$first.rc
rest=$(echo $checks | cut -d' ' -f2-)
if [ "$rest" != "$first" ]; then
  echo $rest | tr ' ' '\n' | xargs -P 8 -I{} sh -c './vcheck {} > /tmp/rop_{}.out 2>&1; echo "{} exit=$?" > /tmp/rop_{}.rc'
fi
for c in $checks; do rc=$(cat /tmp/rop_$c.rc); v=$(grep -c "^VIOLATION" /tmp/rop_$c.out); echo "$rc violations=$v $(grep -m1 '\[C' /tmp/rop_$c.out | cut -c1-220)"; done | grep -v "exit=0 violations=0"
git -C /repo checkout -- . 
