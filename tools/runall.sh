#!/bin/bash
# tools/runall.sh [checks...]: run quick checks in parallel against MASA_REPO (default /repo), print one line each
cd /verif
# a scratch tree (MASA_REPO set) must not overwrite the committed evidence
if [ -n "$MASA_REPO" ] && [ -z "$VCHECK_OUT" ]; then export VCHECK_OUT=/tmp/o; mkdir -p /tmp/o; fi
checks=${@:-C01 C02 C03 C04 C05 C06 C07 C08 C09 C10 C11 C12 C13 C14 C15 C16 C17 C18 C19 C20}
echo $checks | tr ' ' '\n' | xargs -P 16 -I{} sh -c './vcheck {} > /tmp/ra_{}.out 2>&1; echo "{} rc=$? $(tail -1 /tmp/ra_{}.out)"' | sort
