// masa-ir: libTooling extractor.  One translation unit in, one compact JSON IR
// file out.  Walks every non-dependent function body, record and variable whose
// spelling location is under one of the --root directories, *including* template
// instantiations (double and long double specialisations are emitted as separate
// functions).  Callees are recorded as resolved by clang's overload resolution,
// members by FieldDecl.  No evaluation of anything happens here.
//
// usage: masa-ir --out=FILE --root=DIR[,DIR...] file.cpp -- <compile flags>

#include "clang/AST/ASTConsumer.h"
#include "clang/AST/ASTContext.h"
#include "clang/AST/DeclCXX.h"
#include "clang/AST/DeclTemplate.h"
#include "clang/AST/ExprCXX.h"
#include "clang/AST/RecursiveASTVisitor.h"
#include "clang/AST/StmtCXX.h"
#include "clang/Frontend/CompilerInstance.h"
#include "clang/Frontend/FrontendAction.h"
#include "clang/Lex/Lexer.h"
#include "clang/Tooling/CommonOptionsParser.h"
#include "clang/Tooling/Tooling.h"
#include "llvm/Support/CommandLine.h"
#include "llvm/Support/raw_ostream.h"

#include <map>
#include <set>
#include <sstream>
#include <string>
#include <vector>

using namespace clang;
using namespace clang::tooling;

static llvm::cl::OptionCategory Cat("masa-ir options");
static llvm::cl::opt<std::string> OutFile("out", llvm::cl::desc("output json"),
                                          llvm::cl::Required, llvm::cl::cat(Cat));
static llvm::cl::opt<std::string> Roots("root", llvm::cl::desc("comma separated source roots"),
                                        llvm::cl::Required, llvm::cl::cat(Cat));

namespace {

std::string jesc(llvm::StringRef s) {
  std::string o;
  o.reserve(s.size() + 2);
  for (unsigned char c : s) {
    switch (c) {
    case '"': o += "\\\""; break;
    case '\\': o += "\\\\"; break;
    case '\n': o += "\\n"; break;
    case '\r': o += "\\r"; break;
    case '\t': o += "\\t"; break;
    default:
      if (c < 0x20 || c >= 0x7f) {
        char buf[8];
        snprintf(buf, sizeof buf, "\\u%04x", c);
        o += buf;
      } else
        o += char(c);
    }
  }
  return o;
}

struct Emitter {
  ASTContext &Ctx;
  SourceManager &SM;
  PrintingPolicy PP;
  std::vector<std::string> roots;
  std::map<std::string, int> typeIdx;
  std::vector<std::string> types;
  std::map<std::string, int> fileIdx;
  std::vector<std::string> files;
  std::map<const Decl *, int> localIds;
  int nextLocal = 0;
  const FunctionDecl *curFn = nullptr;

  Emitter(ASTContext &C) : Ctx(C), SM(C.getSourceManager()), PP(C.getLangOpts()) {
    PP.SuppressTagKeyword = true;
    PP.Bool = true;
    PP.FullyQualifiedName = true;
    PP.PrintCanonicalTypes = true;
    std::stringstream ss(Roots);
    std::string r;
    while (std::getline(ss, r, ','))
      if (!r.empty()) roots.push_back(r);
  }

  int tyId(QualType T) {
    std::string s = T.isNull() ? std::string("<null>") : T.getCanonicalType().getAsString(PP);
    auto it = typeIdx.find(s);
    if (it != typeIdx.end()) return it->second;
    int id = types.size();
    types.push_back(s);
    typeIdx[s] = id;
    return id;
  }
  std::string tyStr(QualType T) {
    return T.isNull() ? std::string("<null>") : T.getCanonicalType().getAsString(PP);
  }

  int fileId(const std::string &f) {
    auto it = fileIdx.find(f);
    if (it != fileIdx.end()) return it->second;
    int id = files.size();
    files.push_back(f);
    fileIdx[f] = id;
    return id;
  }

  bool inRoots(SourceLocation L) {
    if (L.isInvalid()) return false;
    SourceLocation E = SM.getExpansionLoc(L);
    llvm::StringRef fn = SM.getFilename(E);
    if (fn.empty()) return false;
    for (auto &r : roots)
      if (fn.startswith(r)) return true;
    return false;
  }

  // "f:line:col" using the expansion location (where the user would edit);
  // ",m" appended when the node came from a macro body.
  std::string loc(SourceLocation L) {
    if (L.isInvalid()) return "\"?\"";
    bool macro = L.isMacroID();
    SourceLocation E = SM.getExpansionLoc(L);
    PresumedLoc P = SM.getPresumedLoc(E);
    if (P.isInvalid()) return "\"?\"";
    std::string s = "\"" + std::to_string(fileId(P.getFilename())) + ":" +
                    std::to_string(P.getLine()) + ":" + std::to_string(P.getColumn());
    if (macro) s += ":m";
    s += "\"";
    return s;
  }

  std::string qname(const NamedDecl *D) {
    std::string s;
    llvm::raw_string_ostream os(s);
    D->printQualifiedName(os, PP);
    os.flush();
    return s;
  }

  std::string recQName(const CXXRecordDecl *RD) {
    std::string s = qname(RD);
    if (const ClassTemplateSpecializationDecl *sp = dyn_cast<ClassTemplateSpecializationDecl>(RD)) {
      const TemplateArgumentList &TAL = sp->getTemplateArgs();
      s += "<";
      for (unsigned i = 0; i < TAL.size(); ++i) {
        if (i) s += ", ";
        std::string a;
        llvm::raw_string_ostream os(a);
        TAL.get(i).print(PP, os, true);
        os.flush();
        s += a;
      }
      s += ">";
    }
    return s;
  }

  // qualified name of a function including template arguments of the function
  // itself (printQualifiedName already prints class template args of parents)
  std::string fnQName(const FunctionDecl *FD) {
    std::string s = qname(FD);
    if (const TemplateArgumentList *TAL = FD->getTemplateSpecializationArgs()) {
      s += "<";
      for (unsigned i = 0; i < TAL->size(); ++i) {
        if (i) s += ", ";
        std::string a;
        llvm::raw_string_ostream os(a);
        TAL->get(i).print(PP, os, true);
        os.flush();
        s += a;
      }
      s += ">";
    }
    return s;
  }

  std::string sourceText(SourceRange R) {
    CharSourceRange CR = CharSourceRange::getTokenRange(R);
    bool inv = false;
    llvm::StringRef t = Lexer::getSourceText(CR, SM, Ctx.getLangOpts(), &inv);
    if (inv) return "";
    return t.str();
  }

  // ---------------------------------------------------------------- exprs
  void E(const Expr *e, std::string &o) {
    if (!e) { o += "null"; return; }
    switch (e->getStmtClass()) {
    case Stmt::ParenExprClass: {
      o += "{\"k\":\"paren\",\"e\":";
      E(cast<ParenExpr>(e)->getSubExpr(), o);
      o += "}";
      return;
    }
    case Stmt::ExprWithCleanupsClass:
      E(cast<ExprWithCleanups>(e)->getSubExpr(), o); return;
    case Stmt::MaterializeTemporaryExprClass:
      E(cast<MaterializeTemporaryExpr>(e)->getSubExpr(), o); return;
    case Stmt::CXXBindTemporaryExprClass:
      E(cast<CXXBindTemporaryExpr>(e)->getSubExpr(), o); return;
    case Stmt::ConstantExprClass:
      E(cast<ConstantExpr>(e)->getSubExpr(), o); return;
    case Stmt::SubstNonTypeTemplateParmExprClass:
      E(cast<SubstNonTypeTemplateParmExpr>(e)->getReplacement(), o); return;
    case Stmt::CXXDefaultArgExprClass:
      o += "{\"k\":\"defarg\",\"e\":";
      E(cast<CXXDefaultArgExpr>(e)->getExpr(), o);
      o += "}";
      return;
    case Stmt::CXXDefaultInitExprClass:
      E(cast<CXXDefaultInitExpr>(e)->getExpr(), o); return;
    case Stmt::ImplicitCastExprClass:
    case Stmt::CStyleCastExprClass:
    case Stmt::CXXFunctionalCastExprClass:
    case Stmt::CXXStaticCastExprClass:
    case Stmt::CXXConstCastExprClass:
    case Stmt::CXXReinterpretCastExprClass:
    case Stmt::CXXDynamicCastExprClass: {
      const CastExpr *c = cast<CastExpr>(e);
      CastKind ck = c->getCastKind();
      bool implicit = isa<ImplicitCastExpr>(c);
      // transparent casts: keep the tree small
      if (implicit && (ck == CK_LValueToRValue || ck == CK_NoOp ||
                       ck == CK_FunctionToPointerDecay || ck == CK_ArrayToPointerDecay ||
                       ck == CK_BuiltinFnToFnPtr)) {
        if (ck == CK_LValueToRValue) {
          o += "{\"k\":\"load\",\"e\":";
          E(c->getSubExpr(), o);
          o += "}";
        } else
          E(c->getSubExpr(), o);
        return;
      }
      o += "{\"k\":\"cast\",\"ck\":\"";
      o += c->getCastKindName();
      o += "\",\"imp\":";
      o += implicit ? "1" : "0";
      o += ",\"from\":" + std::to_string(tyId(c->getSubExpr()->getType()));
      o += ",\"t\":" + std::to_string(tyId(c->getType()));
      o += ",\"l\":" + loc(c->getBeginLoc());
      o += ",\"e\":";
      E(c->getSubExpr(), o);
      o += "}";
      return;
    }
    case Stmt::BinaryOperatorClass:
    case Stmt::CompoundAssignOperatorClass: {
      const BinaryOperator *b = cast<BinaryOperator>(e);
      o += "{\"k\":\"bin\",\"op\":\"";
      o += b->getOpcodeStr().str();
      o += "\",\"t\":" + std::to_string(tyId(b->getType()));
      o += ",\"l\":" + loc(b->getOperatorLoc());
      o += ",\"a\":";
      E(b->getLHS(), o);
      o += ",\"b\":";
      E(b->getRHS(), o);
      o += "}";
      return;
    }
    case Stmt::UnaryOperatorClass: {
      const UnaryOperator *u = cast<UnaryOperator>(e);
      o += "{\"k\":\"un\",\"op\":\"";
      o += UnaryOperator::getOpcodeStr(u->getOpcode()).str();
      o += "\",\"post\":";
      o += u->isPostfix() ? "1" : "0";
      o += ",\"t\":" + std::to_string(tyId(u->getType()));
      o += ",\"l\":" + loc(u->getOperatorLoc());
      o += ",\"e\":";
      E(u->getSubExpr(), o);
      o += "}";
      return;
    }
    case Stmt::ConditionalOperatorClass: {
      const ConditionalOperator *c = cast<ConditionalOperator>(e);
      o += "{\"k\":\"cond\",\"c\":";
      E(c->getCond(), o);
      o += ",\"a\":";
      E(c->getTrueExpr(), o);
      o += ",\"b\":";
      E(c->getFalseExpr(), o);
      o += ",\"l\":" + loc(c->getQuestionLoc()) + "}";
      return;
    }
    case Stmt::IntegerLiteralClass: {
      const IntegerLiteral *i = cast<IntegerLiteral>(e);
      o += "{\"k\":\"int\",\"v\":\"" + llvm::toString(i->getValue(), 10, !i->getType()->isUnsignedIntegerType()) + "\"";
      o += ",\"t\":" + std::to_string(tyId(i->getType()));
      o += ",\"l\":" + loc(i->getLocation()) + "}";
      return;
    }
    case Stmt::FloatingLiteralClass: {
      const FloatingLiteral *f = cast<FloatingLiteral>(e);
      std::string sp = sourceText(SourceRange(SM.getSpellingLoc(f->getBeginLoc()), SM.getSpellingLoc(f->getEndLoc())));
      llvm::SmallString<32> val;
      f->getValue().toString(val, 40, 0);
      o += "{\"k\":\"float\",\"sp\":\"" + jesc(sp) + "\",\"v\":\"" + jesc(val) + "\"";
      o += ",\"exact\":";
      o += f->isExact() ? "1" : "0";
      o += ",\"t\":" + std::to_string(tyId(f->getType()));
      o += ",\"l\":" + loc(f->getLocation()) + "}";
      return;
    }
    case Stmt::StringLiteralClass: {
      const StringLiteral *s = cast<StringLiteral>(e);
      o += "{\"k\":\"str\",\"v\":\"" + (s->getCharByteWidth() == 1 ? jesc(s->getString()) : std::string("?")) + "\"";
      o += ",\"l\":" + loc(s->getBeginLoc()) + "}";
      return;
    }
    case Stmt::CharacterLiteralClass: {
      const CharacterLiteral *c = cast<CharacterLiteral>(e);
      o += "{\"k\":\"char\",\"v\":" + std::to_string(c->getValue()) + ",\"l\":" + loc(c->getLocation()) + "}";
      return;
    }
    case Stmt::CXXBoolLiteralExprClass:
      o += std::string("{\"k\":\"bool\",\"v\":") + (cast<CXXBoolLiteralExpr>(e)->getValue() ? "1" : "0") + "}";
      return;
    case Stmt::CXXNullPtrLiteralExprClass:
    case Stmt::GNUNullExprClass:
      o += "{\"k\":\"nullptr\"}";
      return;
    case Stmt::CXXThisExprClass:
      o += "{\"k\":\"this\"}";
      return;
    case Stmt::DeclRefExprClass: {
      const DeclRefExpr *d = cast<DeclRefExpr>(e);
      const ValueDecl *vd = d->getDecl();
      if (const ParmVarDecl *p = dyn_cast<ParmVarDecl>(vd)) {
        o += "{\"k\":\"param\",\"n\":\"" + jesc(p->getName()) + "\",\"i\":" + std::to_string(p->getFunctionScopeIndex());
        // parameter of an enclosing lambda/other function?  record owner when not current fn
        const DeclContext *dc = p->getDeclContext();
        if (curFn && dc != curFn) o += ",\"foreign\":1";
        o += ",\"t\":" + std::to_string(tyId(p->getType()));
        o += ",\"l\":" + loc(d->getLocation()) + "}";
      } else if (const VarDecl *v = dyn_cast<VarDecl>(vd)) {
        if (v->isLocalVarDecl()) {
          int id;
          auto it = localIds.find(v);
          if (it == localIds.end()) { id = nextLocal++; localIds[v] = id; } else id = it->second;
          o += "{\"k\":\"local\",\"n\":\"" + jesc(v->getName()) + "\",\"id\":" + std::to_string(id);
          if (v->isStaticLocal()) o += ",\"static\":1";
          o += ",\"t\":" + std::to_string(tyId(v->getType()));
          o += ",\"l\":" + loc(d->getLocation()) + "}";
        } else {
          o += "{\"k\":\"global\",\"q\":\"" + jesc(qname(v)) + "\"";
          if (v->isStaticDataMember()) o += ",\"sdm\":1";
          o += ",\"const\":";
          o += v->getType().isConstQualified() ? "1" : "0";
          o += ",\"t\":" + std::to_string(tyId(v->getType()));
          o += ",\"l\":" + loc(d->getLocation()) + "}";
        }
      } else if (const FunctionDecl *f = dyn_cast<FunctionDecl>(vd)) {
        o += "{\"k\":\"fnref\",\"q\":\"" + jesc(fnQName(f)) + "\",\"sig\":\"" + jesc(tyStr(f->getType())) + "\"";
        o += ",\"l\":" + loc(d->getLocation()) + "}";
      } else if (const EnumConstantDecl *ec = dyn_cast<EnumConstantDecl>(vd)) {
        o += "{\"k\":\"int\",\"v\":\"" + llvm::toString(ec->getInitVal(), 10) + "\",\"enum\":\"" + jesc(qname(ec)) + "\",\"t\":" + std::to_string(tyId(d->getType())) + "}";
      } else {
        o += "{\"k\":\"declref\",\"q\":\"" + jesc(qname(vd)) + "\"}";
      }
      return;
    }
    case Stmt::MemberExprClass: {
      const MemberExpr *m = cast<MemberExpr>(e);
      const ValueDecl *md = m->getMemberDecl();
      if (const FieldDecl *fd = dyn_cast<FieldDecl>(md)) {
        o += "{\"k\":\"member\",\"n\":\"" + jesc(fd->getName()) + "\",\"rec\":\"" + jesc(recQName(cast<CXXRecordDecl>(fd->getParent()))) + "\"";
        o += ",\"arrow\":";
        o += m->isArrow() ? "1" : "0";
        o += ",\"t\":" + std::to_string(tyId(fd->getType()));
        o += ",\"l\":" + loc(m->getMemberLoc());
        o += ",\"base\":";
        E(m->getBase(), o);
        o += "}";
      } else if (const VarDecl *v = dyn_cast<VarDecl>(md)) { // static data member via this->
        o += "{\"k\":\"global\",\"q\":\"" + jesc(qname(v)) + "\",\"sdm\":1,\"const\":";
        o += v->getType().isConstQualified() ? "1" : "0";
        o += ",\"t\":" + std::to_string(tyId(v->getType()));
        o += ",\"l\":" + loc(m->getMemberLoc()) + "}";
      } else if (const CXXMethodDecl *cm = dyn_cast<CXXMethodDecl>(md)) {
        o += "{\"k\":\"methodref\",\"q\":\"" + jesc(fnQName(cm)) + "\",\"sig\":\"" + jesc(tyStr(cm->getType())) + "\",\"base\":";
        E(m->getBase(), o);
        o += "}";
      } else {
        o += "{\"k\":\"memberx\",\"q\":\"" + jesc(qname(md)) + "\"}";
      }
      return;
    }
    case Stmt::CallExprClass:
    case Stmt::CXXMemberCallExprClass:
    case Stmt::CXXOperatorCallExprClass: {
      const CallExpr *c = cast<CallExpr>(e);
      const FunctionDecl *callee = c->getDirectCallee();
      o += "{\"k\":\"call\"";
      if (callee) {
        o += ",\"q\":\"" + jesc(fnQName(callee)) + "\",\"n\":\"" + jesc(callee->getNameAsString()) + "\"";
        o += ",\"sig\":\"" + jesc(tyStr(callee->getType())) + "\"";
        if (const CXXMethodDecl *md = dyn_cast<CXXMethodDecl>(callee)) {
          o += ",\"rec\":\"" + jesc(recQName(md->getParent())) + "\"";
          // Base::f(args) names one function: a qualified member call is not dispatched dynamically
          bool qualified = false;
          if (const MemberExpr *me = dyn_cast<MemberExpr>(c->getCallee()->IgnoreParenImpCasts()))
            qualified = me->hasQualifier();
          if (md->isVirtual() && !qualified) o += ",\"virt\":1";
          if (qualified) o += ",\"qualified\":1";
          if (md->isStatic()) o += ",\"smeth\":1";
        }
        if (callee->isExternC()) o += ",\"externc\":1";
        if (inRoots(callee->getLocation())) o += ",\"inrepo\":1";
      } else {
        o += ",\"indirect\":";
        E(c->getCallee(), o);
      }
      if (isa<CXXOperatorCallExpr>(c)) o += ",\"opcall\":1";
      o += ",\"t\":" + std::to_string(tyId(c->getType()));
      o += ",\"l\":" + loc(c->getBeginLoc());
      if (const CXXMemberCallExpr *mc = dyn_cast<CXXMemberCallExpr>(c)) {
        o += ",\"obj\":";
        E(mc->getImplicitObjectArgument(), o);
      }
      o += ",\"args\":[";
      for (unsigned i = 0; i < c->getNumArgs(); ++i) {
        if (i) o += ",";
        E(c->getArg(i), o);
      }
      o += "]}";
      return;
    }
    case Stmt::CXXConstructExprClass:
    case Stmt::CXXTemporaryObjectExprClass: {
      const CXXConstructExpr *c = cast<CXXConstructExpr>(e);
      // elidable copy/move: transparent
      if (c->isElidable() && c->getNumArgs() == 1) { E(c->getArg(0), o); return; }
      o += "{\"k\":\"construct\",\"t\":" + std::to_string(tyId(c->getType()));
      o += ",\"ctor\":\"" + jesc(tyStr(c->getConstructor()->getType())) + "\"";
      o += ",\"l\":" + loc(c->getBeginLoc());
      o += ",\"args\":[";
      for (unsigned i = 0; i < c->getNumArgs(); ++i) {
        if (i) o += ",";
        E(c->getArg(i), o);
      }
      o += "]}";
      return;
    }
    case Stmt::CXXNewExprClass: {
      const CXXNewExpr *n = cast<CXXNewExpr>(e);
      o += "{\"k\":\"new\",\"ty\":\"" + jesc(tyStr(n->getAllocatedType())) + "\"";
      o += ",\"array\":";
      o += n->isArray() ? "1" : "0";
      o += ",\"l\":" + loc(n->getBeginLoc());
      o += ",\"init\":";
      E(n->getInitializer(), o);
      o += "}";
      return;
    }
    case Stmt::CXXDeleteExprClass: {
      const CXXDeleteExpr *d = cast<CXXDeleteExpr>(e);
      o += "{\"k\":\"delete\",\"array\":";
      o += d->isArrayForm() ? "1" : "0";
      o += ",\"l\":" + loc(d->getBeginLoc());
      o += ",\"e\":";
      E(d->getArgument(), o);
      o += "}";
      return;
    }
    case Stmt::CXXThrowExprClass: {
      const CXXThrowExpr *t = cast<CXXThrowExpr>(e);
      o += "{\"k\":\"throw\",\"l\":" + loc(t->getThrowLoc());
      o += ",\"ty\":\"" + (t->getSubExpr() ? jesc(tyStr(t->getSubExpr()->getType())) : std::string("")) + "\"";
      o += ",\"e\":";
      E(t->getSubExpr(), o);
      o += "}";
      return;
    }
    case Stmt::ArraySubscriptExprClass: {
      const ArraySubscriptExpr *a = cast<ArraySubscriptExpr>(e);
      o += "{\"k\":\"index\",\"l\":" + loc(a->getRBracketLoc()) + ",\"base\":";
      E(a->getBase(), o);
      o += ",\"idx\":";
      E(a->getIdx(), o);
      o += "}";
      return;
    }
    case Stmt::CXXScalarValueInitExprClass:
      o += "{\"k\":\"zeroinit\",\"t\":" + std::to_string(tyId(e->getType())) + "}";
      return;
    case Stmt::ImplicitValueInitExprClass:
      o += "{\"k\":\"zeroinit\",\"t\":" + std::to_string(tyId(e->getType())) + "}";
      return;
    case Stmt::InitListExprClass: {
      const InitListExpr *il = cast<InitListExpr>(e);
      if (il->isSemanticForm() == false && il->getSemanticForm()) il = il->getSemanticForm();
      o += "{\"k\":\"initlist\",\"t\":" + std::to_string(tyId(il->getType()));
      // field names when initialising a record
      if (const RecordType *rt = il->getType()->getAs<RecordType>()) {
        o += ",\"fields\":[";
        bool first = true;
        for (const FieldDecl *F : rt->getDecl()->fields()) {
          if (!first) o += ",";
          first = false;
          o += "\"" + jesc(F->getName()) + "\"";
        }
        o += "]";
      }
      o += ",\"args\":[";
      for (unsigned i = 0; i < il->getNumInits(); ++i) {
        if (i) o += ",";
        E(il->getInit(i), o);
      }
      o += "]}";
      return;
    }
    case Stmt::UnaryExprOrTypeTraitExprClass: {
      Expr::EvalResult R;
      if (!e->isValueDependent() && e->EvaluateAsInt(R, Ctx)) {
        o += "{\"k\":\"int\",\"v\":\"" + llvm::toString(R.Val.getInt(), 10) + "\",\"sizeof\":1,\"t\":" + std::to_string(tyId(e->getType())) + "}";
      } else
        o += "{\"k\":\"sizeof\"}";
      return;
    }
    default: {
      o += "{\"k\":\"unk\",\"cls\":\"";
      o += e->getStmtClassName();
      o += "\",\"l\":" + loc(e->getBeginLoc()) + ",\"ch\":[";
      bool first = true;
      for (const Stmt *ch : e->children()) {
        if (!first) o += ",";
        first = false;
        S(ch, o);
      }
      o += "]}";
      return;
    }
    }
  }

  void VarDeclJson(const VarDecl *v, std::string &o) {
    int id;
    auto it = localIds.find(v);
    if (it == localIds.end()) { id = nextLocal++; localIds[v] = id; } else id = it->second;
    o += "{\"n\":\"" + jesc(v->getName()) + "\",\"id\":" + std::to_string(id);
    o += ",\"t\":" + std::to_string(tyId(v->getType()));
    if (v->isStaticLocal()) o += ",\"static\":1";
    o += ",\"l\":" + loc(v->getLocation());
    o += ",\"init\":";
    E(v->getInit(), o);
    o += "}";
  }

  // ---------------------------------------------------------------- stmts
  void S(const Stmt *s, std::string &o) {
    if (!s) { o += "null"; return; }
    if (const Expr *e = dyn_cast<Expr>(s)) { E(e, o); return; }
    switch (s->getStmtClass()) {
    case Stmt::CompoundStmtClass: {
      o += "{\"k\":\"block\",\"s\":[";
      bool first = true;
      for (const Stmt *c : cast<CompoundStmt>(s)->body()) {
        if (!first) o += ",";
        first = false;
        S(c, o);
      }
      o += "]}";
      return;
    }
    case Stmt::DeclStmtClass: {
      o += "{\"k\":\"decl\",\"vars\":[";
      bool first = true;
      for (const Decl *d : cast<DeclStmt>(s)->decls()) {
        if (const VarDecl *v = dyn_cast<VarDecl>(d)) {
          if (!first) o += ",";
          first = false;
          VarDeclJson(v, o);
        }
      }
      o += "]}";
      return;
    }
    case Stmt::IfStmtClass: {
      const IfStmt *i = cast<IfStmt>(s);
      o += "{\"k\":\"if\",\"l\":" + loc(i->getIfLoc()) + ",\"c\":";
      E(i->getCond(), o);
      o += ",\"then\":";
      S(i->getThen(), o);
      o += ",\"else\":";
      S(i->getElse(), o);
      o += "}";
      return;
    }
    case Stmt::SwitchStmtClass: {
      const SwitchStmt *w = cast<SwitchStmt>(s);
      o += "{\"k\":\"switch\",\"l\":" + loc(w->getSwitchLoc()) + ",\"c\":";
      E(w->getCond(), o);
      o += ",\"body\":";
      S(w->getBody(), o);
      o += "}";
      return;
    }
    case Stmt::CaseStmtClass: {
      const CaseStmt *c = cast<CaseStmt>(s);
      o += "{\"k\":\"case\",\"l\":" + loc(c->getCaseLoc()) + ",\"v\":";
      Expr::EvalResult R;
      if (c->getLHS() && !c->getLHS()->isValueDependent() && c->getLHS()->EvaluateAsInt(R, Ctx))
        o += "\"" + llvm::toString(R.Val.getInt(), 10) + "\"";
      else
        o += "null";
      o += ",\"ve\":";
      E(c->getLHS(), o);
      o += ",\"sub\":";
      S(c->getSubStmt(), o);
      o += "}";
      return;
    }
    case Stmt::DefaultStmtClass: {
      const DefaultStmt *d = cast<DefaultStmt>(s);
      o += "{\"k\":\"default\",\"l\":" + loc(d->getDefaultLoc()) + ",\"sub\":";
      S(d->getSubStmt(), o);
      o += "}";
      return;
    }
    case Stmt::ForStmtClass: {
      const ForStmt *f = cast<ForStmt>(s);
      o += "{\"k\":\"for\",\"l\":" + loc(f->getForLoc()) + ",\"init\":";
      S(f->getInit(), o);
      o += ",\"c\":";
      E(f->getCond(), o);
      o += ",\"inc\":";
      E(f->getInc(), o);
      o += ",\"body\":";
      S(f->getBody(), o);
      o += "}";
      return;
    }
    case Stmt::WhileStmtClass: {
      const WhileStmt *w = cast<WhileStmt>(s);
      o += "{\"k\":\"while\",\"l\":" + loc(w->getWhileLoc()) + ",\"c\":";
      E(w->getCond(), o);
      o += ",\"body\":";
      S(w->getBody(), o);
      o += "}";
      return;
    }
    case Stmt::DoStmtClass: {
      const DoStmt *w = cast<DoStmt>(s);
      o += "{\"k\":\"do\",\"l\":" + loc(w->getDoLoc()) + ",\"c\":";
      E(w->getCond(), o);
      o += ",\"body\":";
      S(w->getBody(), o);
      o += "}";
      return;
    }
    case Stmt::ReturnStmtClass: {
      const ReturnStmt *r = cast<ReturnStmt>(s);
      o += "{\"k\":\"return\",\"l\":" + loc(r->getReturnLoc()) + ",\"e\":";
      E(r->getRetValue(), o);
      o += "}";
      return;
    }
    case Stmt::BreakStmtClass:
      o += "{\"k\":\"break\",\"l\":" + loc(s->getBeginLoc()) + "}";
      return;
    case Stmt::ContinueStmtClass:
      o += "{\"k\":\"continue\",\"l\":" + loc(s->getBeginLoc()) + "}";
      return;
    case Stmt::NullStmtClass:
      o += "{\"k\":\"null\"}";
      return;
    case Stmt::GotoStmtClass:
      o += "{\"k\":\"goto\",\"l\":" + loc(s->getBeginLoc()) + "}";
      return;
    case Stmt::CXXTryStmtClass: {
      const CXXTryStmt *t = cast<CXXTryStmt>(s);
      o += "{\"k\":\"try\",\"body\":";
      S(t->getTryBlock(), o);
      o += ",\"handlers\":[";
      for (unsigned i = 0; i < t->getNumHandlers(); ++i) {
        if (i) o += ",";
        S(t->getHandler(i)->getHandlerBlock(), o);
      }
      o += "]}";
      return;
    }
    default: {
      o += "{\"k\":\"unkstmt\",\"cls\":\"";
      o += s->getStmtClassName();
      o += "\",\"l\":" + loc(s->getBeginLoc()) + ",\"ch\":[";
      bool first = true;
      for (const Stmt *ch : s->children()) {
        if (!first) o += ",";
        first = false;
        S(ch, o);
      }
      o += "]}";
      return;
    }
    }
  }

  // ---------------------------------------------------------------- decls
  std::string fnHeader(const FunctionDecl *FD) {
    std::string o;
    o += "\"q\":\"" + jesc(fnQName(FD)) + "\",\"n\":\"" + jesc(FD->getNameAsString()) + "\"";
    o += ",\"sig\":\"" + jesc(tyStr(FD->getType())) + "\"";
    o += ",\"ret\":\"" + jesc(tyStr(FD->getReturnType())) + "\"";
    o += ",\"l\":" + loc(FD->getLocation());
    {
      const FunctionDecl *pat = FD->getTemplateInstantiationPattern();
      const FunctionDecl *pd = nullptr;
      if (pat && pat->hasBody(pd) && pd) o += ",\"dl\":" + loc(pd->getLocation());
    }
    if (FD->getFirstDecl() != FD) o += ",\"fl\":" + loc(FD->getFirstDecl()->getLocation());
    o += ",\"params\":[";
    for (unsigned i = 0; i < FD->getNumParams(); ++i) {
      const ParmVarDecl *p = FD->getParamDecl(i);
      if (i) o += ",";
      o += "{\"n\":\"" + jesc(p->getName()) + "\",\"t\":\"" + jesc(tyStr(p->getType())) + "\"}";
    }
    o += "]";
    if (FD->isExternC()) o += ",\"externc\":1";
    if (FD->isNoReturn()) o += ",\"noreturn\":1";
    if (const CXXMethodDecl *md = dyn_cast<CXXMethodDecl>(FD)) {
      o += ",\"rec\":\"" + jesc(recQName(md->getParent())) + "\"";
      if (md->isVirtual()) o += ",\"virt\":1";
      if (md->isPure()) o += ",\"pure\":1";
      if (md->isConst()) o += ",\"constm\":1";
      if (md->isStatic()) o += ",\"smeth\":1";
      if (isa<CXXConstructorDecl>(md)) o += ",\"ctor\":1";
      if (isa<CXXDestructorDecl>(md)) o += ",\"dtor\":1";
      o += ",\"overrides\":[";
      bool first = true;
      for (const CXXMethodDecl *ov : md->overridden_methods()) {
        if (!first) o += ",";
        first = false;
        o += "\"" + jesc(fnQName(ov)) + "|" + jesc(tyStr(ov->getType())) + "\"";
      }
      o += "]";
    }
    switch (FD->getTemplateSpecializationKind()) {
    case TSK_ImplicitInstantiation: o += ",\"tsk\":\"implicit\""; break;
    case TSK_ExplicitInstantiationDefinition: o += ",\"tsk\":\"explicit_def\""; break;
    case TSK_ExplicitInstantiationDeclaration: o += ",\"tsk\":\"explicit_decl\""; break;
    case TSK_ExplicitSpecialization: o += ",\"tsk\":\"specialization\""; break;
    default: break;
    }
    if (FD->getTemplateSpecializationKind() == TSK_ExplicitInstantiationDefinition ||
        FD->getTemplateSpecializationKind() == TSK_ExplicitInstantiationDeclaration)
      o += ",\"poi\":" + loc(FD->getPointOfInstantiation());
    return o;
  }

  std::vector<std::string> fnOut, recOut, varOut, tmplOut, declOut;
  std::set<const FunctionDecl *> seenFn;
  std::set<const CXXRecordDecl *> seenRec;
  std::set<const VarDecl *> seenVar;

  void emitFunction(const FunctionDecl *FD) {
    if (FD->isDependentContext()) return;
    if (!inRoots(FD->getLocation())) return;
    const FunctionDecl *Def = nullptr;
    if (FD->hasBody(Def)) {
      if (Def->isDependentContext()) return;
      if (!seenFn.insert(Def->getCanonicalDecl()).second) return;
      if (Def->isDefaulted() && !Def->doesThisDeclarationHaveABody()) return;
      localIds.clear();
      nextLocal = 0;
      curFn = Def;
      std::string o = "{" + fnHeader(Def);
      if (const CXXConstructorDecl *cd = dyn_cast<CXXConstructorDecl>(Def)) {
        o += ",\"inits\":[";
        bool first = true;
        for (const CXXCtorInitializer *ci : cd->inits()) {
          if (!first) o += ",";
          first = false;
          o += "{";
          if (ci->isAnyMemberInitializer())
            o += "\"member\":\"" + jesc(ci->getAnyMember()->getName()) + "\"";
          else if (ci->isBaseInitializer())
            o += "\"base\":\"" + jesc(tyStr(QualType(ci->getBaseClass(), 0))) + "\"";
          else
            o += "\"other\":1";
          o += ",\"written\":";
          o += ci->isWritten() ? "1" : "0";
          o += ",\"e\":";
          E(ci->getInit(), o);
          o += "}";
        }
        o += "]";
      }
      o += ",\"body\":";
      S(Def->getBody(), o);
      o += "}";
      fnOut.push_back(std::move(o));
      curFn = nullptr;
    } else {
      // declaration only (e.g. extern "C" prototypes of masa.h)
      if (FD->getTemplatedKind() == FunctionDecl::TK_FunctionTemplate) return;
      if (isa<CXXMethodDecl>(FD)) return; // listed under the record
      if (!seenFn.insert(FD->getCanonicalDecl()).second) return;
      declOut.push_back("{" + fnHeader(FD) + "}");
    }
  }

  void emitFunctionTemplate(const FunctionTemplateDecl *T) {
    if (!inRoots(T->getLocation())) return;
    const FunctionDecl *FD = T->getTemplatedDecl();
    if (isa<CXXMethodDecl>(FD)) return;
    std::string o = "{\"q\":\"" + jesc(qname(FD)) + "\",\"n\":\"" + jesc(FD->getNameAsString()) + "\"";
    o += ",\"sig\":\"" + jesc(FD->getType().getAsString(PP)) + "\"";
    o += ",\"nparams\":" + std::to_string(FD->getNumParams());
    o += ",\"def\":";
    o += T->isThisDeclarationADefinition() ? "1" : "0";
    o += ",\"l\":" + loc(T->getLocation()) + "}";
    tmplOut.push_back(std::move(o));
  }

  void emitRecord(const CXXRecordDecl *RD) {
    if (!RD->isThisDeclarationADefinition()) return;
    if (RD->isDependentContext()) return;
    if (!inRoots(RD->getLocation())) return;
    if (RD->isLambda()) return;
    if (!seenRec.insert(RD->getCanonicalDecl()).second) return;
    std::string o = "{\"q\":\"" + jesc(recQName(RD)) + "\",\"n\":\"" + jesc(RD->getNameAsString()) + "\"";
    o += ",\"l\":" + loc(RD->getLocation());
    if (const ClassTemplateSpecializationDecl *sp = dyn_cast<ClassTemplateSpecializationDecl>(RD)) {
      o += ",\"targs\":[";
      const TemplateArgumentList &TAL = sp->getTemplateArgs();
      for (unsigned i = 0; i < TAL.size(); ++i) {
        if (i) o += ",";
        std::string a;
        llvm::raw_string_ostream os(a);
        TAL.get(i).print(PP, os, true);
        os.flush();
        o += "\"" + jesc(a) + "\"";
      }
      o += "]";
      switch (sp->getSpecializationKind()) {
      case TSK_ImplicitInstantiation: o += ",\"tsk\":\"implicit\""; break;
      case TSK_ExplicitInstantiationDefinition: o += ",\"tsk\":\"explicit_def\",\"poi\":" + loc(sp->getPointOfInstantiation()); break;
      case TSK_ExplicitInstantiationDeclaration: o += ",\"tsk\":\"explicit_decl\""; break;
      case TSK_ExplicitSpecialization: o += ",\"tsk\":\"specialization\""; break;
      default: break;
      }
    }
    o += ",\"bases\":[";
    bool first = true;
    for (const CXXBaseSpecifier &B : RD->bases()) {
      if (!first) o += ",";
      first = false;
      o += "\"" + jesc(tyStr(B.getType())) + "\"";
    }
    o += "],\"fields\":[";
    first = true;
    for (const FieldDecl *F : RD->fields()) {
      if (!first) o += ",";
      first = false;
      o += "{\"n\":\"" + jesc(F->getName()) + "\",\"t\":\"" + jesc(tyStr(F->getType())) + "\"";
      o += ",\"access\":\"";
      o += F->getAccess() == AS_public ? "public" : F->getAccess() == AS_protected ? "protected" : "private";
      o += "\",\"l\":" + loc(F->getLocation()) + "}";
    }
    o += "],\"statics\":[";
    first = true;
    for (const Decl *D : RD->decls()) {
      if (const VarDecl *V = dyn_cast<VarDecl>(D)) {
        if (!first) o += ",";
        first = false;
        o += "{\"n\":\"" + jesc(V->getName()) + "\",\"t\":\"" + jesc(tyStr(V->getType())) + "\",\"const\":";
        o += V->getType().isConstQualified() ? "1" : "0";
        o += ",\"l\":" + loc(V->getLocation()) + "}";
      }
    }
    o += "],\"methods\":[";
    first = true;
    for (const CXXMethodDecl *M : RD->methods()) {
      if (M->isImplicit()) continue;
      if (!first) o += ",";
      first = false;
      o += "{" + fnHeader(M);
      o += ",\"defined\":";
      const FunctionDecl *Def = nullptr;
      // for an instantiated member, a definition exists iff the pattern has one
      bool defd = M->hasBody(Def);
      if (!defd)
        if (const FunctionDecl *pat = M->getTemplateInstantiationPattern())
          defd = pat->hasBody(Def);
      o += defd ? "1" : "0";
      o += ",\"access\":\"";
      o += M->getAccess() == AS_public ? "public" : M->getAccess() == AS_protected ? "protected" : "private";
      o += "\"}";
    }
    o += "]}";
    recOut.push_back(std::move(o));
  }

  void emitVar(const VarDecl *V) {
    if (V->isLocalVarDecl() || isa<ParmVarDecl>(V)) return;
    if (V->getDeclContext()->isDependentContext()) return;
    if (!inRoots(V->getLocation())) return;
    if (!V->isFileVarDecl() && !V->isStaticDataMember()) return;
    const VarDecl *Def = V->getDefinition();
    const VarDecl *use = Def ? Def : V;
    if (!seenVar.insert(V->getCanonicalDecl()).second) return;
    localIds.clear();
    nextLocal = 0;
    std::string o = "{\"q\":\"" + jesc(qname(use)) + "\",\"n\":\"" + jesc(use->getName()) + "\"";
    o += ",\"t\":\"" + jesc(tyStr(use->getType())) + "\"";
    o += ",\"const\":";
    o += use->getType().isConstQualified() ? "1" : "0";
    if (use->isStaticDataMember()) o += ",\"sdm\":1";
    o += ",\"anon\":";
    o += use->isInAnonymousNamespace() ? "1" : "0";
    o += ",\"l\":" + loc(use->getLocation());
    o += ",\"init\":";
    const Expr *init = use->getInit();
    if (!init) {
      // static member of an instantiated template: look at the pattern's initialiser
      // only if clang already instantiated it; otherwise null.
      init = use->getAnyInitializer();
    }
    if (init && !init->isValueDependent() && !init->isTypeDependent())
      E(init, o);
    else
      o += "null";
    o += "}";
    varOut.push_back(std::move(o));
  }

  void write() {
    std::error_code EC;
    llvm::raw_fd_ostream os(OutFile, EC);
    if (EC) { llvm::errs() << "cannot write " << OutFile << "\n"; exit(3); }
    auto dump = [&](const char *key, std::vector<std::string> &v) {
      os << "\"" << key << "\":[\n";
      for (size_t i = 0; i < v.size(); ++i) {
        if (i) os << ",\n";
        os << v[i];
      }
      os << "\n]";
    };
    os << "{";
    dump("functions", fnOut); os << ",\n";
    dump("records", recOut); os << ",\n";
    dump("vars", varOut); os << ",\n";
    dump("templates", tmplOut); os << ",\n";
    dump("decls", declOut); os << ",\n";
    os << "\"types\":[";
    for (size_t i = 0; i < types.size(); ++i) { if (i) os << ","; os << "\"" << jesc(types[i]) << "\""; }
    os << "],\n\"files\":[";
    for (size_t i = 0; i < files.size(); ++i) { if (i) os << ","; os << "\"" << jesc(files[i]) << "\""; }
    os << "]}\n";
  }
};

class Visitor : public RecursiveASTVisitor<Visitor> {
public:
  Emitter &Em;
  explicit Visitor(Emitter &E) : Em(E) {}
  bool shouldVisitTemplateInstantiations() const { return true; }
  bool shouldVisitImplicitCode() const { return false; }
  bool VisitFunctionDecl(FunctionDecl *FD) { Em.emitFunction(FD); return true; }
  bool VisitFunctionTemplateDecl(FunctionTemplateDecl *T) { Em.emitFunctionTemplate(T); return true; }
  bool VisitCXXRecordDecl(CXXRecordDecl *RD) { Em.emitRecord(RD); return true; }
  bool VisitVarDecl(VarDecl *V) { Em.emitVar(V); return true; }
};

class Consumer : public ASTConsumer {
public:
  void HandleTranslationUnit(ASTContext &Ctx) override {
    if (Ctx.getDiagnostics().hasErrorOccurred()) {
      llvm::errs() << "masa-ir: compile errors, no IR written\n";
      exit(4);
    }
    Emitter Em(Ctx);
    Visitor V(Em);
    V.TraverseDecl(Ctx.getTranslationUnitDecl());
    Em.write();
  }
};

class Action : public ASTFrontendAction {
public:
  std::unique_ptr<ASTConsumer> CreateASTConsumer(CompilerInstance &, llvm::StringRef) override {
    return std::make_unique<Consumer>();
  }
};

} // namespace

int main(int argc, const char **argv) {
  auto Exp = CommonOptionsParser::create(argc, argv, Cat);
  if (!Exp) { llvm::errs() << Exp.takeError(); return 2; }
  ClangTool Tool(Exp->getCompilations(), Exp->getSourcePathList());
  return Tool.run(newFrontendActionFactory<Action>().get());
}
