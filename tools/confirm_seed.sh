#!/bin/bash
# tools/confirm_seed.sh <srcdir with patch.diff+demo> <label>
# Independently confirms a seeded change in a fresh scratch worktree of /repo:
#   patch applies, library builds, full suite passes, demo fails with the patch, demo passes without it.
# Prints one summary line; removes the worktree.
src=$1; label=$2
wt=/tmp/confirm_$label
rm -rf $wt; /verif/tools/mkworktree.sh $wt >/dev/null 2>&1 || { echo "$label WORKTREE-FAIL"; exit 2; }
cd $wt
res="$label"
if ! git apply --check $src/patch.diff 2>/dev/null; then echo "$label PATCH-DOES-NOT-APPLY"; cd /; git -C /repo worktree remove --force $wt; exit 1; fi
git apply $src/patch.diff
if make -j4 >/tmp/confirm_$label.build.log 2>&1; then res="$res build=ok"; else res="$res build=FAIL"; fi
suite=$(make -k check 2>&1 | grep -E "^# (FAIL|ERROR):" | awk '{s+=$3} END{print s+0}')
res="$res suite_fail_or_error=$suite"
demo_with=NA; demo_without=NA
run_demo() {
  if [ -f $src/demo.sh ]; then (bash $src/demo.sh ${DEMO_ARG_SRC:+$wt/src}${DEMO_ARG_SRC:-$wt} >/dev/null 2>&1; echo $?)
  elif [ -f $src/demo.cpp ]; then g++ -O0 $src/demo.cpp -I$wt/src -L$wt/src/.libs -lmasa -o /tmp/confirm_$label.demo 2>/dev/null && (cd /tmp && LD_LIBRARY_PATH=$wt/src/.libs timeout 300 /tmp/confirm_$label.demo >/dev/null 2>&1; echo $?)
  elif [ -f $src/demo.c ]; then gcc -O0 $src/demo.c -I$wt/src -L$wt/src/.libs -lmasa -lstdc++ -lm -o /tmp/confirm_$label.demo 2>/dev/null && (cd /tmp && LD_LIBRARY_PATH=$wt/src/.libs timeout 300 /tmp/confirm_$label.demo >/dev/null 2>&1; echo $?)
  elif [ -f $src/demo.sh ]; then (bash $src/demo.sh ${DEMO_ARG_SRC:+$wt/src}${DEMO_ARG_SRC:-$wt} >/dev/null 2>&1; echo $?)
  elif [ -f $src/demo.py ]; then (python3 $src/demo.py $( [ -n "$DEMO_ARG_SRC" ] && echo $wt/src || echo $wt ) >/dev/null 2>&1; echo $?)
  else echo NODEMO; fi
}
if [ -f $src/run_demo.sh ]; then demo_with=$(bash $src/run_demo.sh $wt >/dev/null 2>&1; echo $?); else demo_with=$(run_demo); fi
git checkout -- . ; make -j4 >/dev/null 2>&1
if [ -f $src/run_demo.sh ]; then demo_without=$(bash $src/run_demo.sh $wt >/dev/null 2>&1; echo $?); else demo_without=$(run_demo); fi
res="$res demo_with_patch=$demo_with demo_without_patch=$demo_without"
cd /; git -C /repo worktree remove --force $wt; rm -f /tmp/confirm_$label.demo /tmp/confirm_$label.build.log
echo "$res"
